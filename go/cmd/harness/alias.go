//go:build verif

package main

import (
	"bytes"
	"fmt"
	"os"
	"path/filepath"
	"runtime/debug"
	"strings"

	"github.com/akrylysov/pogreb"
	"github.com/akrylysov/pogreb/fs"
	"verif/simfs"
)

// alias stream (C14): every slice the database hands out is kept and re-read after later
// operations, compaction, Close; every slice handed in is overwritten right after the call.

type kept struct {
	what  string
	slice []byte
	want  []byte
}

func realFS(name string) (fs.FileSystem, string, func()) {
	switch name {
	case "mem":
		return fs.Mem, "", func() {}
	case "os", "mmap":
		tmp, _ := os.MkdirTemp("", "vfs")
		f := fs.OS
		if name == "mmap" {
			f = fs.OSMMap
		}
		return f, tmp + "/", func() { os.RemoveAll(tmp) }
	case "submmap", "submem":
		// a FileSystem the application wrapped (here: rooted in a directory) instead of a built-in value
		tmp, _ := os.MkdirTemp("", "vfs")
		if name == "submem" {
			return fs.Sub(fs.Mem, "sub-"+filepath.Base(tmp)), "", func() { os.RemoveAll(tmp) }
		}
		return fs.Sub(fs.OSMMap, tmp), "", func() { os.RemoveAll(tmp) }
	}
	return simfs.New(), "", func() {}
}

func (h *harness) aliasCase(r *rng, name string, nops int) {
	defer func() {
		if e := recover(); e != nil {
			h.emit("aliasfail case=%s panic: %v", name, strings.ReplaceAll(fmt.Sprint(e), "\n", " "))
		}
	}()
	fsName := []string{"mem", "os", "mmap", "mmap", "sim", "submmap", "submem"}[r.intn(7)]
	fsys, prefix, cleanup := realFS(fsName)
	defer cleanup()
	dir := prefix + "alias-" + name
	o := &pogreb.Options{FileSystem: fsys}
	pogreb.VerifSetThresholds(o, []uint32{1024, 2048, 4096}[r.intn(3)], 1, 0.1)
	db, err := pogreb.Open(dir, o)
	if err != nil {
		h.emit("aliasfail case=%s open: %s", name, errStr(err))
		return
	}
	debug.SetPanicOnFault(true)
	var keep []kept
	checks := 0
	nfail := 0
	recheck := func(when string) {
		for _, k := range keep {
			func() {
				defer func() {
					if e := recover(); e != nil {
						if nfail < 3 {
							h.emit("aliasfail case=%s fs=%s a slice returned by %s faults when read %s: %v", name, fsName, k.what, when, e)
						}
						nfail++
					}
				}()
				checks++
				if !bytes.Equal(k.slice, k.want) {
					if nfail < 3 {
						h.emit("aliasfail case=%s fs=%s a slice returned by %s changed %s", name, fsName, k.what, when)
					}
					nfail++
				}
			}()
		}
	}
	model := map[string][]byte{}
	nk := 6 + r.intn(20)
	key := func() []byte { return []byte(fmt.Sprintf("ak%02d", r.intn(nk))) }
	for i := 0; i < nops && nfail == 0; i++ {
		switch r.pick(40, 10, 20, 8, 8, 6, 4, 4) {
		case 0:
			k, v := key(), patternBytes(r.intn(200), byte(r.next()))
			if r.chance(15) {
				v = []byte{}
			}
			kk, vv := append([]byte(nil), k...), append([]byte(nil), v...)
			if err := db.Put(kk, vv); err != nil {
				h.emit("aliasfail case=%s put: %s", name, errStr(err))
				return
			}
			// the caller reuses its buffers at once
			for j := range kk {
				kk[j] = 0xEE
			}
			for j := range vv {
				vv[j] = 0xDD
			}
			model[string(k)] = v
		case 1:
			k := key()
			kk := append([]byte(nil), k...)
			_ = db.Delete(kk)
			for j := range kk {
				kk[j] = 0xEE
			}
			delete(model, string(k))
		case 2:
			k := key()
			v, err := db.Get(k)
			if err == nil && v != nil {
				if !bytes.Equal(v, model[string(k)]) {
					h.emit("aliasfail case=%s fs=%s Get(%s) returned a wrong value (input buffers retained?)", name, fsName, k)
					nfail++
				}
				keep = append(keep, kept{"Get", v, append([]byte(nil), v...)})
				if r.chance(30) && len(v) > 0 {
					// the caller may write into its slice: that must not reach the database
					saved := append([]byte(nil), v...)
					func() {
						defer func() {
							if e := recover(); e != nil {
								h.emit("aliasfail case=%s fs=%s writing into the slice returned by Get faults (it is not the caller's memory): %v", name, fsName, e)
								nfail++
							}
						}()
						for j := range v {
							v[j] ^= 0xFF
						}
					}()
					if nfail > 0 {
						break
					}
					if got, _ := db.Get(k); !bytes.Equal(got, saved) {
						h.emit("aliasfail case=%s fs=%s writing into the slice returned by Get changed the stored value", name, fsName)
						nfail++
					}
					keep[len(keep)-1].want = append([]byte(nil), v...)
				}
			}
		case 3:
			k := key()
			buf := make([]byte, 3, 64)
			copy(buf, "pre")
			switch r.intn(4) {
			case 0:
				buf = nil
			case 1:
				buf = []byte{}
			}
			nilBuf := buf == nil
			v, err := db.GetAppend(k, buf)
			if err == nil && v != nil {
				keep = append(keep, kept{"GetAppend", v, append([]byte(nil), v...)})
			}
			if err == nil && (v != nil || nilBuf) && r.chance(60) {
				// the caller owns the result INCLUDING its capacity: appending to it (or passing it on as
				// the next buffer) must neither fault nor reach the database
				want, have := model[string(k)]
				func() {
					defer func() {
						if e := recover(); e != nil {
							h.emit("aliasfail case=%s fs=%s appending to the slice returned by GetAppend faults (its capacity is not the caller's memory): %v", name, fsName, e)
							nfail++
						}
					}()
					w := append(v[:len(v):cap(v)], 0xA5, 0x5A, 0xA5)
					_ = w
					if cap(v) > len(v) {
						full := v[:cap(v)]
						for j := len(v); j < len(full); j++ {
							full[j] ^= 0xFF
						}
					}
				}()
				if nfail == 0 {
					got, _ := db.Get(k)
					if have && !bytes.Equal(got, want) {
						h.emit("aliasfail case=%s fs=%s writing into the capacity of the slice returned by GetAppend changed the stored value", name, fsName)
						nfail++
					}
					for kk, wv := range model {
						if g2, _ := db.Get([]byte(kk)); !bytes.Equal(g2, wv) && nfail == 0 {
							h.emit("aliasfail case=%s fs=%s writing into the capacity of the slice returned by GetAppend changed the value of another key", name, fsName)
							nfail++
						}
					}
				}
			}
		case 4:
			it := db.Items()
			scanDirty := map[string]bool{}
			for n := 0; n < 12; n++ {
				k, v, err := it.Next()
				if err != nil {
					break
				}
				// the caller owns both slices including their capacity: using the spare capacity of one must
				// not reach the other (nor anything else)
				kc, vc := append([]byte(nil), k...), append([]byte(nil), v...)
				func() {
					defer func() {
						if e := recover(); e != nil {
							h.emit("aliasfail case=%s fs=%s writing into the spare capacity of a slice returned by Next faults: %v", name, fsName, e)
							nfail++
						}
					}()
					for _, sl := range [][]byte{k, v} {
						full := sl[:cap(sl)]
						for j := len(sl); j < len(full); j++ {
							full[j] ^= 0xFF
						}
					}
				}()
				if !bytes.Equal(k, kc) || !bytes.Equal(v, vc) {
					h.emit("aliasfail case=%s fs=%s the key and value returned by one Next call share memory (writing into the spare capacity of one changed the other)", name, fsName)
					nfail++
				}
				keep = append(keep, kept{"Next(key)", k, append([]byte(nil), k...)}, kept{"Next(value)", v, append([]byte(nil), v...)})
				if want, ok := model[string(k)]; ok && !bytes.Equal(v, want) && !scanDirty[string(k)] {
					h.emit("aliasfail case=%s fs=%s Next returned a wrong value for key %s (queued slice changed under the iterator?)", name, fsName, k)
					nfail++
				}
				if r.chance(40) {
					kk := key()
					nv := patternBytes(r.intn(100), byte(r.next()))
					_ = db.Put(kk, append([]byte(nil), nv...))
					model[string(kk)] = nv
					scanDirty[string(kk)] = true
				}
				if r.chance(25) {
					// overwrite everything and compact: segments the iterator may have queued slices of go away
					for j := 0; j < nk; j++ {
						kk := []byte(fmt.Sprintf("ak%02d", j))
						if _, ok := model[string(kk)]; ok {
							nv := patternBytes(20+r.intn(60), byte(r.next()))
							_ = db.Put(kk, append([]byte(nil), nv...))
							model[string(kk)] = nv
							scanDirty[string(kk)] = true
						}
					}
					_, _ = db.Compact()
				}
			}
		case 5:
			_, _ = db.Compact()
			recheck("after Compact")
		case 6:
			_ = db.Sync()
		case 7:
			if err := db.Close(); err != nil {
				h.emit("aliasfail case=%s close: %s", name, errStr(err))
				return
			}
			recheck("after Close")
			db, err = pogreb.Open(dir, o)
			if err != nil {
				h.emit("aliasfail case=%s reopen: %s", name, errStr(err))
				return
			}
		}
		if i%16 == 0 {
			recheck("after later operations")
		}
		if len(keep) > 400 {
			keep = keep[200:]
		}
	}
	// final: everything written is still what the caller wrote (inputs were not retained)
	for k, v := range model {
		got, _ := db.Get([]byte(k))
		checks++
		if !bytes.Equal(got, v) {
			h.emit("aliasfail case=%s fs=%s key %s reads back differently from what was put (caller's buffer retained?)", name, fsName, k)
			break
		}
	}
	_ = db.Close()
	recheck("after the final Close")
	h.emit("aliassum case=%s fs=%s checks=%d kept=%d", name, fsName, checks, len(keep))
	h.stat("alias.fs." + fsName)
}

func (h *harness) runAlias(seed uint64, cases, nops int) {
	r := &rng{s: seed*0x9e3779b97f4a7c15 + 31337}
	for i := 0; i < cases; i++ {
		name := fmt.Sprintf("alias-%d-%d", seed, i)
		h.emit("case %s", name)
		h.aliasCase(r, name, nops)
		h.emit("end")
	}
}
