//go:build verif

package main

import "math/bits"

// murmur32 is MurmurHash3_x86_32, written independently of pogreb's internal/hash so that
// the generators can build colliding key pools before a database exists. The harness
// cross-checks it against DB.VerifHash on every case.
func murmur32(data []byte, seed uint32) uint32 {
	const c1, c2 = 0xcc9e2d51, 0x1b873593
	h := seed
	n := len(data)
	for len(data) >= 4 {
		k := uint32(data[0]) | uint32(data[1])<<8 | uint32(data[2])<<16 | uint32(data[3])<<24
		data = data[4:]
		k *= c1
		k = bits.RotateLeft32(k, 15)
		k *= c2
		h ^= k
		h = bits.RotateLeft32(h, 13)
		h = h*5 + 0xe6546b64
	}
	var k uint32
	switch len(data) {
	case 3:
		k ^= uint32(data[2]) << 16
		fallthrough
	case 2:
		k ^= uint32(data[1]) << 8
		fallthrough
	case 1:
		k ^= uint32(data[0])
		k *= c1
		k = bits.RotateLeft32(k, 15)
		k *= c2
		h ^= k
	}
	h ^= uint32(n)
	h ^= h >> 16
	h *= 0x85ebca6b
	h ^= h >> 13
	h *= 0xc2b2ae35
	h ^= h >> 16
	return h
}
