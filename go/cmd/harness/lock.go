//go:build verif

package main

import (
	"fmt"
	"os"
	"path/filepath"
	"runtime"
	"strconv"
	"strings"
	"sync"
	"time"

	"github.com/akrylysov/pogreb/fs"
)

// lock stream (C13): schedules of several openers and closers of one lock file, interleaved at
// system-call granularity with the verif yield points of fs.OS, executed on a real directory
// and compared step by step with the Lean lock machine.

func goid() int {
	var buf [64]byte
	n := runtime.Stack(buf[:], false)
	f := strings.Fields(string(buf[:n]))
	id, _ := strconv.Atoi(f[1])
	return id
}

type lproc struct {
	id      int
	resume  chan struct{}
	parked  chan string // receives the yield point, or "ret" when the call returned
	status  string
	lock    fs.LockFile
	running bool
}

type lockSched struct {
	mu    sync.Mutex
	byGID map[int]*lproc
}

func (ls *lockSched) hook(point string) {
	ls.mu.Lock()
	p := ls.byGID[goid()]
	ls.mu.Unlock()
	if p == nil {
		return
	}
	p.parked <- point
	<-p.resume
}

// lockScript: forced first steps of a case ("start:1", "sys:2", "release:1", "crash:1").
var lockScript []string

func (h *harness) lockCase(r *rng, name string, nproc, steps int) {
	script := lockScript
	lockScript = nil
	dir, _ := os.MkdirTemp("", "lockcase")
	defer os.RemoveAll(dir)
	path := filepath.Join(dir, "lock")
	ls := &lockSched{byGID: map[int]*lproc{}}
	fs.VerifSetYield(ls.hook)
	defer fs.VerifSetYield(nil)
	procs := make([]*lproc, nproc+1)
	for i := 1; i <= nproc; i++ {
		procs[i] = &lproc{id: i, status: "idle"}
	}
	h.emit("case %s", name)
	h.emit("lockinit procs=%d", nproc)
	wait := func(p *lproc) string {
		select {
		case pt := <-p.parked:
			return pt
		case <-time.After(10 * time.Second):
			return "timeout"
		}
	}
	spawn := func(p *lproc, f func() string) {
		p.resume = make(chan struct{})
		p.parked = make(chan string, 1)
		p.running = true
		ready := make(chan struct{})
		go func() {
			ls.mu.Lock()
			ls.byGID[goid()] = p
			ls.mu.Unlock()
			close(ready)
			res := f()
			ls.mu.Lock()
			delete(ls.byGID, goid())
			ls.mu.Unlock()
			p.parked <- "ret:" + res
		}()
		<-ready
	}
	settle := func(p *lproc, pt string) {
		if strings.HasPrefix(pt, "ret:") {
			p.running = false
			p.status = strings.TrimPrefix(pt, "ret:")
		} else {
			p.status = "parked:" + pt
		}
	}
	for step := 0; step < steps; step++ {
		p := procs[1+r.intn(nproc)]
		act := ""
		forced := ""
		if step < len(script) {
			var id int
			parts := strings.SplitN(script[step], ":", 2)
			fmt.Sscan(parts[1], &id)
			p, forced = procs[id], parts[0]
		}
		switch {
		case (forced == "crash" || (forced == "" && r.chance(12))) && strings.HasPrefix(p.status, "holding") && p.lock != nil:
			// the process dies: the OS closes its descriptors (the flock goes away), the lock file stays
			act = "crash"
			if c, ok := p.lock.(interface{ Close() error }); ok {
				_ = c.Close()
			}
			p.lock = nil
			p.status = "idle"
		case p.running:
			act = "sys"
			p.resume <- struct{}{}
			settle(p, wait(p))
		case p.status == "idle" || p.status == "failed":
			act = "start"
			spawn(p, func() string {
				l, existed, err := fs.OS.CreateLockFile(path, 0644)
				if err != nil {
					if err == os.ErrExist {
						return "failed"
					}
					return "error:" + strings.ReplaceAll(err.Error(), " ", "_")
				}
				p.lock = l
				if existed {
					return "holding:1"
				}
				return "holding:0"
			})
			settle(p, wait(p))
		case strings.HasPrefix(p.status, "holding"):
			if forced == "release" || (forced == "" && r.chance(60)) {
				act = "release"
				l := p.lock
				spawn(p, func() string {
					if err := l.Unlock(); err != nil {
						return "error:" + strings.ReplaceAll(err.Error(), " ", "_")
					}
					return "idle"
				})
				settle(p, wait(p))
			} else {
				continue
			}
		default:
			continue
		}
		_, statErr := os.Stat(path)
		exists := 0
		if statErr == nil {
			exists = 1
		}
		holders := 0
		for i := 1; i <= nproc; i++ {
			if strings.HasPrefix(procs[i].status, "holding") {
				holders++
			}
		}
		h.emit("lk %s %d -> %s path=%d holders=%d", act, p.id, p.status, exists, holders)
		h.stat("lock." + act)
	}
	// drain: let every running call finish, release every holder
	for i := 1; i <= nproc; i++ {
		p := procs[i]
		for n := 0; p.running && n < 20; n++ {
			p.resume <- struct{}{}
			settle(p, wait(p))
			h.emit("lk sys %d -> %s path=- holders=-", p.id, p.status)
		}
	}
	for i := 1; i <= nproc; i++ {
		if strings.HasPrefix(procs[i].status, "holding") && procs[i].lock != nil {
			fs.VerifSetYield(nil)
			_ = procs[i].lock.Unlock()
		}
	}
	h.emit("end")
}

func (h *harness) runLock(seed uint64, cases int) {
	r := &rng{s: seed*0x9e3779b97f4a7c15 + 4242}
	// directed schedules first: a session that starts and dies while another opener is inside its
	// acquisition (F17), and the creator of the lock file overtaken before it locks it (known finding)
	lockScript = []string{"start:1", "start:2", "sys:2", "sys:2", "sys:2", "crash:2", "sys:1", "sys:1"}
	h.lockCase(r, fmt.Sprintf("lock-%d-overtaken-and-died", seed), 2, 10)
	lockScript = []string{"start:1", "sys:1", "sys:1", "crash:1", "start:2", "sys:2", "sys:2", "sys:2"}
	h.lockCase(r, fmt.Sprintf("lock-%d-orphan", seed), 2, 10)
	for i := 0; i < cases; i++ {
		h.lockCase(r, fmt.Sprintf("lock-%d-%d", seed, i), 2+r.intn(2), 8+r.intn(14))
	}
}
