//go:build verif

package main

import (
	"fmt"
	"os"
	"sync"
	"time"

	"github.com/akrylysov/pogreb"
	"verif/simfs"
)

// closeRace (C10, deterministic): Close is called while a compaction is parked at one of the points
// where it holds no database lock. variant "manual": Compact called by a user goroutine - Close must
// return (no deadlock) and the compaction must fail or finish harmlessly. variant "background": the
// compaction was started by the database's worker - Close must not return before the worker is done.
func (h *harness) closeRaceCase(name, variant, parkPoint string, parkAfter int) {
	h.emit("case %s", name)
	defer h.emit("end")
	sim := simfs.New()
	o := &pogreb.Options{FileSystem: sim}
	pogreb.VerifSetThresholds(o, 1024, 1, 0.05)
	double := variant == "background2" // two goroutines call Close at the same time
	if double {
		variant = "background"
	}
	if variant == "background" {
		o.BackgroundCompactionInterval = time.Millisecond
	}
	var mu sync.Mutex
	parked := make(chan struct{})
	release := make(chan struct{})
	armed := false
	hits := 0
	done := false
	pogreb.VerifSetYield(func(p string) {
		mu.Lock()
		if !armed || done || p != parkPoint {
			mu.Unlock()
			return
		}
		hits++
		if hits <= parkAfter {
			mu.Unlock()
			return
		}
		done = true
		mu.Unlock()
		close(parked)
		<-release
	})
	defer pogreb.VerifSetYield(nil)
	db, err := pogreb.Open("cr", o)
	if err != nil {
		h.emit("concfail case=%s open: %s", name, errStr(err))
		return
	}
	want := map[string]string{}
	for i := 0; i < 60; i++ {
		k := fmt.Sprintf("k%02d", i%20)
		v := fmt.Sprintf("v%d-%s", i, string(patternBytes(30, byte(i))))
		_ = db.Put([]byte(k), []byte(v))
		want[k] = v
	}
	mu.Lock()
	armed = true
	mu.Unlock()
	compactDone := make(chan error, 1)
	if variant == "manual" {
		go func() {
			_, err := db.Compact()
			compactDone <- err
		}()
	}
	select {
	case <-parked:
	case <-time.After(3 * time.Second):
		h.emit("concsum case=%s variant=%s park=%s never-parked checks=0", name, variant, parkPoint)
		mu.Lock()
		done = true
		mu.Unlock()
		db.Close()
		return
	}
	closeDone := make(chan error, 1)
	go func() { closeDone <- db.Close() }()
	checks := 0
	switch variant {
	case "manual":
		select {
		case err := <-closeDone:
			checks++
			if err != nil {
				h.emit("concfail case=%s Close racing with a user Compact returned %s", name, errStr(err))
			}
		case <-time.After(3 * time.Second):
			h.emit("concfail case=%s deadlock: Close did not return within 3s while a user Compact was parked at %s (holding no database lock)", name, parkPoint)
			close(release)
			return
		}
		close(release)
		select {
		case <-compactDone:
			checks++
		case <-time.After(3 * time.Second):
			h.emit("concfail case=%s deadlock: Compact did not return within 3s after Close", name)
			return
		}
	case "background":
		closeDone2 := make(chan error, 1)
		if double {
			time.Sleep(20 * time.Millisecond)
			go func() { closeDone2 <- db.Close() }()
		}
		select {
		case <-closeDone:
			h.emit("concfail case=%s Close returned while the database's own background compaction was still running (parked at %s): a goroutine started by the database outlives Close", name, parkPoint)
			close(release)
			return
		case <-closeDone2:
			h.emit("concfail case=%s a second, concurrent Close returned while the database's own background compaction was still running (parked at %s): a goroutine started by the database outlives Close", name, parkPoint)
			close(release)
			return
		case <-time.After(100 * time.Millisecond):
			checks++
		}
		close(release)
		if double {
			select {
			case err := <-closeDone2:
				checks++
				if err != nil && err != os.ErrClosed {
					h.emit("concfail case=%s the second concurrent Close returned %s", name, errStr(err))
				}
			case <-time.After(5 * time.Second):
				h.emit("concfail case=%s deadlock: the second concurrent Close did not return within 5s after the background compaction resumed", name)
				return
			}
		}
		select {
		case err := <-closeDone:
			checks++
			if err != nil && !(double && err == os.ErrClosed) {
				h.emit("concfail case=%s Close returned %s", name, errStr(err))
			}
		case <-time.After(5 * time.Second):
			h.emit("concfail case=%s deadlock: Close did not return within 5s after the background compaction resumed", name)
			return
		}
		if n := dbGoroutines(); n > 0 {
			h.emit("concfail case=%s %d database goroutine(s) left after Close", name, n)
		}
	}
	// the contents survive whatever the interrupted compaction did
	pogreb.VerifSetYield(nil)
	db2, err := pogreb.Open("cr", &pogreb.Options{FileSystem: sim})
	if err != nil {
		h.emit("concfail case=%s reopen after Close racing with compaction: %s", name, errStr(err))
		return
	}
	for k, v := range want {
		got, err := db2.Get([]byte(k))
		checks++
		if err != nil || string(got) != v {
			h.emit("concfail case=%s after Close racing with compaction key %s reads %q (err %v), want %q", name, k, got, err, v)
			break
		}
	}
	db2.Close()
	h.emit("concsum case=%s variant=%s park=%s checks=%d", name, variant, parkPoint, checks)
	if double {
		variant = "background2"
	}
	h.stat("closerace." + variant)
}

func (h *harness) runCloseRaces(seed uint64) {
	i := 0
	for _, variant := range []string{"manual", "background", "background2"} {
		for _, pt := range []struct {
			p string
			n int
		}{{"compact.picked", 0}, {"compact.sealed", 0}, {"compact.record", 0}, {"compact.record", 3}, {"compact.sealed", 1}} {
			h.closeRaceCase(fmt.Sprintf("closerace-%d-%d", seed, i), variant, pt.p, pt.n)
			i++
		}
	}
}
