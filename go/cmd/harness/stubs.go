//go:build verif

package main

func (h *harness) runTails(seed uint64, cases int)        {}
func (h *harness) runLock(seed uint64, cases int)         {}
func (h *harness) runConc(seed uint64, cases, nops int)   {}
func (h *harness) runAlias(seed uint64, cases, nops int)  {}
func (h *harness) runFSDiff(seed uint64, cases, nops int) {}
func (h *harness) runGolden(dir string)                   {}
