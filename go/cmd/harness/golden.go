//go:build verif

package main

import (
	"bufio"
	"fmt"
	"os"
	"path/filepath"
	"sort"
	"strings"

	"github.com/akrylysov/pogreb"
	"github.com/akrylysov/pogreb/fs"
)

// golden stream (C18): directories written by the pinned version must open under the current
// code with identical contents; clean ones without recovery.

func copyDir(src, dst string) error {
	if err := os.MkdirAll(dst, 0755); err != nil {
		return err
	}
	ents, err := os.ReadDir(src)
	if err != nil {
		return err
	}
	for _, e := range ents {
		b, err := os.ReadFile(filepath.Join(src, e.Name()))
		if err != nil {
			return err
		}
		if err := os.WriteFile(filepath.Join(dst, e.Name()), b, 0640); err != nil {
			return err
		}
	}
	return nil
}

func osSegFilesLine(dir string) string {
	ents, _ := os.ReadDir(dir)
	var parts []string
	for _, e := range ents {
		if strings.HasSuffix(e.Name(), ".psg") {
			b, _ := os.ReadFile(filepath.Join(dir, e.Name()))
			data := []byte{}
			if len(b) > 512 {
				data = b[512:]
			}
			parts = append(parts, fmt.Sprintf("%s:%s", strings.TrimSuffix(e.Name(), ".psg"), hx(data)))
		}
	}
	sort.Strings(parts)
	if len(parts) == 0 {
		return "-"
	}
	return strings.Join(parts, " ")
}

func (h *harness) runGolden(root string, seed uint64) {
	r := &rng{s: seed*0x9e3779b97f4a7c15 + 4242}
	dirs, _ := filepath.Glob(filepath.Join(root, "g*"))
	sort.Strings(dirs)
	for _, g := range dirs {
		meta, _ := os.ReadFile(filepath.Join(g, "meta.txt"))
		mf := strings.Fields(string(meta))
		kind, maxseg, seed := "clean", "0", "0"
		for _, f := range mf {
			kv := strings.SplitN(f, "=", 2)
			switch kv[0] {
			case "kind":
				kind = kv[1]
			case "maxseg":
				maxseg = kv[1]
			case "seed":
				seed = kv[1]
			}
		}
		var items []string
		var probe [][]byte
		ef, err := os.Open(filepath.Join(g, "expected.txt"))
		if err == nil {
			sc := bufio.NewScanner(ef)
			sc.Buffer(make([]byte, 1<<20), 1<<26)
			for sc.Scan() {
				if l := strings.TrimSpace(sc.Text()); l != "" {
					items = append(items, l)
					probe = append(probe, unhx(strings.SplitN(l, "=", 2)[0]))
				}
			}
			ef.Close()
		}
		exp := "-"
		if len(items) > 0 {
			exp = strings.Join(items, ",")
		}
		for _, fsName := range []string{"os", "mmap"} {
			tmp, _ := os.MkdirTemp("", "golden")
			dbdir := filepath.Join(tmp, "db")
			if err := copyDir(filepath.Join(g, "db"), dbdir); err != nil {
				h.emit("goldenerr %v", err)
				continue
			}
			var fsys fs.FileSystem = fs.OS
			if fsName == "mmap" {
				fsys = fs.OSMMap
			}
			h.emit("case golden-%s-%s", filepath.Base(g), fsName)
			h.emit("cfg maxseg=%s fs=%s", maxseg, fsName)
			h.emit("adopt %s", osSegFilesLine(dbdir))
			h.emit("gexpect kind=%s seed=%s items=%s", kind, seed, exp)
			o := &pogreb.Options{FileSystem: fsys}
			var ms uint32
			fmt.Sscan(maxseg, &ms)
			pogreb.VerifSetThresholds(o, ms, 1<<30, 0.5)
			db, err := pogreb.Open(dbdir, o)
			if err != nil {
				h.emit("gopen res=%s", errStr(err))
				h.emit("end")
				os.RemoveAll(tmp)
				continue
			}
			h.emit("gopen res=ok seed=%d", db.VerifHashSeed())
			h.emit("gstate %s", observe(db, probe))
			h.emit("%s", dumpLine(db))
			// keeps working: one more write, clean close, reopen
			k := []byte("golden-after")
			err = db.Put(k, []byte("1"))
			h.emit("gput %s", errStr(err))
			err = db.Close()
			h.emit("gclose %s", errStr(err))
			db2, err := pogreb.Open(dbdir, o)
			if err != nil {
				h.emit("gopen2 res=%s", errStr(err))
			} else {
				v, _ := db2.Get(k)
				h.emit("gopen2 res=ok count=%d after=%s", db2.Count(), hx(v))
				db2.Close()
			}
			h.emit("end")
			h.stat("golden." + kind)
			os.RemoveAll(tmp)
		}
		h.goldenTorn(g, maxseg, probe, r)
	}
}

// goldenTorn: power-failure images of a directory written by the pinned version. The pinned version did
// not sync a segment before leaving it, so ANY of its segments - not only the newest - can end in a
// torn or missing tail; the current code must recover such a directory to what a validating reader of
// the documented format accepts.
func (h *harness) goldenTorn(g, maxseg string, probe [][]byte, r *rng) {
	ents, _ := os.ReadDir(filepath.Join(g, "db"))
	var segs []string
	for _, e := range ents {
		if strings.HasSuffix(e.Name(), ".psg") {
			segs = append(segs, e.Name())
		}
	}
	if len(segs) < 2 {
		return
	}
	seqOf := func(n string) int {
		var id, seq int
		fmt.Sscanf(strings.TrimSuffix(n, ".psg"), "%d-%d", &id, &seq)
		return seq
	}
	sort.Slice(segs, func(a, b int) bool { return seqOf(segs[a]) < seqOf(segs[b]) })
	for v := 0; v < 4; v++ {
		tmp, _ := os.MkdirTemp("", "goldentorn")
		dbdir := filepath.Join(tmp, "db")
		if err := copyDir(filepath.Join(g, "db"), dbdir); err != nil {
			h.emit("goldenerr %v", err)
			os.RemoveAll(tmp)
			continue
		}
		target := segs[r.intn(len(segs)-1)] // never the newest
		if v == 3 {
			target = segs[len(segs)-1]
		}
		data, _ := os.ReadFile(filepath.Join(dbdir, target))
		var starts []int
		for off := 512; off+6 <= len(data); {
			ks := int(data[off]) | int(data[off+1])<<8
			vs := (int(data[off+2]) | int(data[off+3])<<8 | int(data[off+4])<<16 | int(data[off+5])<<24) & 0x7fffffff
			sz := 10 + ks + vs
			if off+sz > len(data) {
				break
			}
			starts = append(starts, off)
			off += sz
		}
		desc := "none"
		if len(starts) > 0 {
			s0 := starts[r.intn(len(starts))]
			switch r.intn(3) {
			case 0: // file ends inside a record
				cut := s0 + 1 + r.intn(9)
				if cut > len(data) {
					cut = len(data)
				}
				data = data[:cut]
				desc = fmt.Sprintf("cut@%d", cut)
			case 1: // the tail from a sector boundary on never reached the disk (zeroes)
				cut := (s0 + 511) / 512 * 512
				for i := cut; i < len(data); i++ {
					data[i] = 0
				}
				desc = fmt.Sprintf("zeroed@%d", cut)
			case 2: // damaged record
				data[s0+6] ^= 0x10
				desc = fmt.Sprintf("flip@%d", s0+6)
			}
		}
		os.WriteFile(filepath.Join(dbdir, target), data, 0640)
		os.WriteFile(filepath.Join(dbdir, "lock"), nil, 0640) // the session did not complete Close
		h.emit("case golden-%s-torn%d", filepath.Base(g), v)
		h.emit("cfg maxseg=%s fs=os", maxseg)
		h.emit("tail target=%s kind=%s", target, desc)
		h.emit("adopt %s", osSegFilesLine(dbdir))
		o := &pogreb.Options{FileSystem: fs.OS}
		var ms uint32
		fmt.Sscan(maxseg, &ms)
		pogreb.VerifSetThresholds(o, ms, 1<<30, 0.5)
		db, err := pogreb.Open(dbdir, o)
		if err != nil {
			h.emit("open kind=recover res=%s", errStr(err))
		} else {
			h.emit("open kind=recover res=ok seed=%d", db.VerifHashSeed())
			h.emit("rstate %s", observe(db, probe))
			db.Close()
		}
		h.emit("end")
		h.stat("golden.torn")
		os.RemoveAll(tmp)
	}
}
