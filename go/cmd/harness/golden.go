//go:build verif

package main

import (
	"bufio"
	"fmt"
	"os"
	"path/filepath"
	"sort"
	"strings"

	"github.com/akrylysov/pogreb"
	"github.com/akrylysov/pogreb/fs"
)

// golden stream (C18): directories written by the pinned version must open under the current
// code with identical contents; clean ones without recovery.

func copyDir(src, dst string) error {
	if err := os.MkdirAll(dst, 0755); err != nil {
		return err
	}
	ents, err := os.ReadDir(src)
	if err != nil {
		return err
	}
	for _, e := range ents {
		b, err := os.ReadFile(filepath.Join(src, e.Name()))
		if err != nil {
			return err
		}
		if err := os.WriteFile(filepath.Join(dst, e.Name()), b, 0640); err != nil {
			return err
		}
	}
	return nil
}

func osSegFilesLine(dir string) string {
	ents, _ := os.ReadDir(dir)
	var parts []string
	for _, e := range ents {
		if strings.HasSuffix(e.Name(), ".psg") {
			b, _ := os.ReadFile(filepath.Join(dir, e.Name()))
			data := []byte{}
			if len(b) > 512 {
				data = b[512:]
			}
			parts = append(parts, fmt.Sprintf("%s:%s", strings.TrimSuffix(e.Name(), ".psg"), hx(data)))
		}
	}
	sort.Strings(parts)
	if len(parts) == 0 {
		return "-"
	}
	return strings.Join(parts, " ")
}

func (h *harness) runGolden(root string) {
	dirs, _ := filepath.Glob(filepath.Join(root, "g*"))
	sort.Strings(dirs)
	for _, g := range dirs {
		meta, _ := os.ReadFile(filepath.Join(g, "meta.txt"))
		mf := strings.Fields(string(meta))
		kind, maxseg, seed := "clean", "0", "0"
		for _, f := range mf {
			kv := strings.SplitN(f, "=", 2)
			switch kv[0] {
			case "kind":
				kind = kv[1]
			case "maxseg":
				maxseg = kv[1]
			case "seed":
				seed = kv[1]
			}
		}
		var items []string
		var probe [][]byte
		ef, err := os.Open(filepath.Join(g, "expected.txt"))
		if err == nil {
			sc := bufio.NewScanner(ef)
			sc.Buffer(make([]byte, 1<<20), 1<<26)
			for sc.Scan() {
				if l := strings.TrimSpace(sc.Text()); l != "" {
					items = append(items, l)
					probe = append(probe, unhx(strings.SplitN(l, "=", 2)[0]))
				}
			}
			ef.Close()
		}
		exp := "-"
		if len(items) > 0 {
			exp = strings.Join(items, ",")
		}
		for _, fsName := range []string{"os", "mmap"} {
			tmp, _ := os.MkdirTemp("", "golden")
			dbdir := filepath.Join(tmp, "db")
			if err := copyDir(filepath.Join(g, "db"), dbdir); err != nil {
				h.emit("goldenerr %v", err)
				continue
			}
			var fsys fs.FileSystem = fs.OS
			if fsName == "mmap" {
				fsys = fs.OSMMap
			}
			h.emit("case golden-%s-%s", filepath.Base(g), fsName)
			h.emit("cfg maxseg=%s fs=%s", maxseg, fsName)
			h.emit("adopt %s", osSegFilesLine(dbdir))
			h.emit("gexpect kind=%s seed=%s items=%s", kind, seed, exp)
			o := &pogreb.Options{FileSystem: fsys}
			var ms uint32
			fmt.Sscan(maxseg, &ms)
			pogreb.VerifSetThresholds(o, ms, 1<<30, 0.5)
			db, err := pogreb.Open(dbdir, o)
			if err != nil {
				h.emit("gopen res=%s", errStr(err))
				h.emit("end")
				os.RemoveAll(tmp)
				continue
			}
			h.emit("gopen res=ok seed=%d", db.VerifHashSeed())
			h.emit("gstate %s", observe(db, probe))
			h.emit("%s", dumpLine(db))
			// keeps working: one more write, clean close, reopen
			k := []byte("golden-after")
			err = db.Put(k, []byte("1"))
			h.emit("gput %s", errStr(err))
			err = db.Close()
			h.emit("gclose %s", errStr(err))
			db2, err := pogreb.Open(dbdir, o)
			if err != nil {
				h.emit("gopen2 res=%s", errStr(err))
			} else {
				v, _ := db2.Get(k)
				h.emit("gopen2 res=ok count=%d after=%s", db2.Count(), hx(v))
				db2.Close()
			}
			h.emit("end")
			h.stat("golden." + kind)
			os.RemoveAll(tmp)
		}
	}
}
