//go:build verif

package main

import (
	"encoding/binary"
	"fmt"
	"os"
	"runtime"
	"runtime/debug"
	"strings"
	"sync"
	"sync/atomic"
	"time"

	"github.com/akrylysov/pogreb"
	"github.com/akrylysov/pogreb/fs"
	"verif/simfs"
)

// conc stream (C07, C10): free-running goroutines. Every key has ONE writer, which numbers its
// writes; a read that overlaps no write must return exactly the last completed version, a read
// that overlaps writes one of the versions in flight (single-writer register linearizability).
// Validation of the section model against the code; not a proof.

type keyState struct {
	started   int64 // version of the last write call that started
	completed int64 // version of the last write call that returned
	dels      []bool
	mu        sync.Mutex
}

func (ks *keyState) isDel(v int64) bool {
	ks.mu.Lock()
	defer ks.mu.Unlock()
	if v == 0 {
		return true
	}
	return ks.dels[v]
}

func encVal(key int, ver int64, pad int) []byte {
	b := make([]byte, 12+pad)
	binary.LittleEndian.PutUint32(b, uint32(key))
	binary.LittleEndian.PutUint64(b[4:], uint64(ver))
	for i := 12; i < len(b); i++ {
		b[i] = byte(ver) + byte(i)
	}
	return b
}

func decVal(b []byte) (int, int64, bool) {
	if len(b) < 12 {
		return 0, 0, false
	}
	k := int(binary.LittleEndian.Uint32(b))
	v := int64(binary.LittleEndian.Uint64(b[4:]))
	for i := 12; i < len(b); i++ {
		if b[i] != byte(v)+byte(i) {
			return k, v, false
		}
	}
	return k, v, true
}

func (h *harness) concCase(r *rng, name string, nops int) {
	fsName := []string{"sim", "mem", "os", "mmap"}[r.intn(4)]
	var fsys fs.FileSystem
	dir := "concdb"
	var tmp string
	switch fsName {
	case "sim":
		fsys = simfs.New()
	case "mem":
		fsys = fs.Mem
		dir = fmt.Sprintf("concmem-%s", name)
	case "os", "mmap":
		tmp, _ = os.MkdirTemp("", "conc")
		dir = tmp + "/db"
		fsys = fs.OS
		if fsName == "mmap" {
			fsys = fs.OSMMap
		}
	}
	defer func() {
		if tmp != "" {
			os.RemoveAll(tmp)
		}
	}()
	o := &pogreb.Options{FileSystem: fsys}
	bg := r.chance(50)
	if bg {
		o.BackgroundCompactionInterval = time.Duration(1+r.intn(5)) * time.Millisecond
		o.BackgroundSyncInterval = time.Duration(1+r.intn(5)) * time.Millisecond
	}
	pogreb.VerifSetThresholds(o, []uint32{2048, 4096, 16384}[r.intn(3)], 1, 0.2)
	db, err := pogreb.Open(dir, o)
	if err != nil {
		h.emit("concfail case=%s open: %s", name, errStr(err))
		return
	}
	// scheduling noise at the points where compaction / backup / close hold no lock
	pogreb.VerifSetYield(func(point string) {
		// keep maintenance tasks in flight for a while so that writers, readers and Close land inside them
		if strings.HasPrefix(point, "compact.") || strings.HasPrefix(point, "backup.") {
			time.Sleep(50 * time.Microsecond)
		}
		runtime.Gosched()
	})
	defer pogreb.VerifSetYield(nil)
	debug.SetPanicOnFault(true)

	nW, nR := 2+r.intn(3), 2+r.intn(3)
	keysPer := 4 + r.intn(12)
	nKeys := nW * keysPer
	keys := make([]*keyState, nKeys)
	for i := range keys {
		keys[i] = &keyState{dels: []bool{true}}
	}
	kname := func(i int) []byte { return []byte(fmt.Sprintf("ck%04d", i)) }
	var fails []string
	var fmu sync.Mutex
	fail := func(f string, a ...interface{}) {
		fmu.Lock()
		if len(fails) < 5 {
			fails = append(fails, fmt.Sprintf(f, a...))
		}
		fmu.Unlock()
	}
	var checks, closedErrs int64
	var closed int32 // Close has returned
	var startedAtClose []int64
	guard := func(what string) {
		if e := recover(); e != nil {
			fail("panic in %s: %v", what, e)
		}
	}
	var wg sync.WaitGroup
	seedBase := r.next()
	closeAt := -1
	if r.chance(60) {
		closeAt = nops/2 + r.intn(nops/2)
	}
	for w := 0; w < nW; w++ {
		wg.Add(1)
		go func(w int) {
			defer wg.Done()
			defer guard("writer")
			lr := &rng{s: seedBase + uint64(w)*7919}
			for i := 0; i < nops; i++ {
				ki := w*keysPer + lr.intn(keysPer)
				ks := keys[ki]
				ver := atomic.LoadInt64(&ks.started) + 1
				del := lr.chance(25)
				ks.mu.Lock()
				ks.dels = append(ks.dels, del)
				ks.mu.Unlock()
				wasClosed := atomic.LoadInt32(&closed) == 1
				atomic.StoreInt64(&ks.started, ver)
				var err error
				if del {
					err = db.Delete(kname(ki))
				} else {
					err = db.Put(kname(ki), encVal(ki, ver, lr.intn(40)))
				}
				if err != nil {
					atomic.AddInt64(&closedErrs, 1)
					if atomic.LoadInt32(&closed) == 0 && closeAt < 0 {
						fail("write failed without Close: %v", err)
					}
					// a failed write may or may not have been applied: the version stays "in flight" for ever
					return
				}
				if wasClosed {
					// returned nil although Close had returned before the call started: it must have no effect
					// (checked against the reopened contents through startedAtClose)
					_ = wasClosed
				}
				atomic.StoreInt64(&ks.completed, ver)
			}
		}(w)
	}
	for rd := 0; rd < nR; rd++ {
		wg.Add(1)
		go func(rd int) {
			defer wg.Done()
			defer guard("reader")
			lr := &rng{s: seedBase + 1000 + uint64(rd)*104729}
			for i := 0; i < nops; i++ {
				ki := lr.intn(nKeys)
				ks := keys[ki]
				c0 := atomic.LoadInt64(&ks.completed)
				var val []byte
				var present bool
				var err error
				op := lr.intn(3)
				switch op {
				case 0:
					val, err = db.Get(kname(ki))
					present = val != nil
				case 1:
					val, err = db.GetAppend(kname(ki), []byte("pfx"))
					present = val != nil
					if present {
						if string(val[:3]) != "pfx" {
							fail("GetAppend lost the caller's prefix")
						}
						val = val[3:]
					}
				case 2:
					present, err = db.Has(kname(ki))
				}
				s1 := atomic.LoadInt64(&ks.started)
				if err != nil {
					if atomic.LoadInt32(&closed) == 0 && closeAt < 0 {
						fail("read failed without Close: %v", err)
					}
					return
				}
				atomic.AddInt64(&checks, 1)
				if op != 2 && present {
					k, v, ok := decVal(val)
					if !ok || k != ki {
						fail("read of key %d returned a value that was never written for it (key %d ver %d ok=%v)", ki, k, v, ok)
					} else if v < c0 || v > s1 || ks.isDel(v) {
						fail("non-linearizable read: key %d returned version %d, completed before the call: %d, started before its return: %d", ki, v, c0, s1)
					}
				} else {
					// absent (or Has): some version in [c0, s1] must explain it
					okv := false
					for v := c0; v <= s1; v++ {
						if ks.isDel(v) == !present {
							okv = true
						}
					}
					if !okv {
						fail("non-linearizable read: key %d present=%v, but every version in [%d,%d] says otherwise", ki, present, c0, s1)
					}
				}
			}
		}(rd)
	}
	// maintenance goroutine: Compact, Sync, Count, Items, Backup, FileSize, Metrics
	stop := make(chan struct{})
	var mwg sync.WaitGroup
	mwg.Add(1)
	go func() {
		defer mwg.Done()
		defer guard("maintenance")
		lr := &rng{s: seedBase + 5}
		bk := 0
		for {
			select {
			case <-stop:
				return
			default:
			}
			switch lr.intn(7) {
			case 0:
				db.Compact()
			case 1:
				db.Sync()
			case 2:
				if c := db.Count(); int(c) > nKeys {
					fail("Count=%d with only %d keys", c, nKeys)
				}
			case 3:
				it := db.Items()
				seen := map[string]bool{}
				for {
					k, v, err := it.Next()
					if err != nil {
						break
					}
					kk, _, ok := decVal(v)
					if !ok || string(kname(kk)) != string(k) {
						fail("scan returned a pair that was never written: %q", k)
					}
					seen[string(k)] = true
				}
			case 4:
				bk++
				db.Backup(fmt.Sprintf("%s-bk%d", dir, bk))
			case 5:
				db.FileSize()
			case 6:
				db.Metrics()
			}
			runtime.Gosched()
		}
	}()
	// Close racing with everything
	closeDone := make(chan error, 1)
	if closeAt >= 0 {
		go func() {
			defer guard("close")
			for atomic.LoadInt64(&checks) < int64(closeAt) {
				runtime.Gosched()
				select {
				case <-stop:
					closeDone <- nil
					return
				default:
				}
			}
			startedAtClose = make([]int64, nKeys)
			err := db.Close()
			// after Close returns no goroutine started by the database may be left
			if n := dbGoroutines(); n > 0 {
				fail("%d goroutine(s) started by the database still running when Close returned", n)
			}
			for i := range keys {
				startedAtClose[i] = atomic.LoadInt64(&keys[i].started)
			}
			atomic.StoreInt32(&closed, 1)
			closeDone <- err
		}()
	}
	finished := make(chan struct{})
	go func() { wg.Wait(); close(finished) }()
	select {
	case <-finished:
	case <-time.After(60 * time.Second):
		buf := make([]byte, 1<<16)
		n := runtime.Stack(buf, true)
		h.emit("concfail case=%s deadlock or stall: workers did not finish in 60s; goroutines: %s", name, hxShort(buf[:n]))
		h.w.Flush()
		os.Exit(3)
	}
	close(stop)
	mwg.Wait()
	if closeAt >= 0 {
		select {
		case err := <-closeDone:
			if err != nil {
				fail("Close returned %v", err)
			}
		case <-time.After(30 * time.Second):
			h.emit("concfail case=%s Close did not return within 30s (deadlock)", name)
			h.w.Flush()
			os.Exit(3)
		}
	}
	if atomic.LoadInt32(&closed) == 0 {
		if err := db.Close(); err != nil {
			fail("final Close returned %v", err)
		}
		startedAtClose = nil
	}
	// no goroutine of the database is left (the worker), and the final contents are explained
	time.Sleep(5 * time.Millisecond)
	pogreb.VerifSetYield(nil)
	db2, err := pogreb.Open(dir, o)
	if err != nil {
		fail("reopen after Close: %v", err)
	} else {
		for ki, ks := range keys {
			v, err := db2.Get(kname(ki))
			if err != nil {
				fail("get after reopen: %v", err)
				break
			}
			lo := atomic.LoadInt64(&ks.completed)
			hi := atomic.LoadInt64(&ks.started)
			if startedAtClose != nil {
				hi = startedAtClose[ki]
				if lo > hi {
					lo = hi
				}
			}
			if v == nil {
				okv := false
				for x := lo; x <= hi; x++ {
					if ks.isDel(x) {
						okv = true
					}
				}
				if !okv && startedAtClose == nil {
					fail("after Close/reopen key %d is absent but its last acknowledged write (version %d) was a put", ki, lo)
				}
			} else {
				_, ver, ok := decVal(v)
				if !ok || ver > hi {
					fail("after Close/reopen key %d holds version %d: a write that lost the race with Close (started %d) took effect", ki, ver, hi)
				} else if startedAtClose == nil && (ver < lo || ks.isDel(ver)) {
					fail("after Close/reopen key %d holds version %d, acknowledged %d", ki, ver, lo)
				}
			}
		}
		db2.Close()
	}
	for _, f := range fails {
		h.emit("concfail case=%s fs=%s bg=%v %s", name, fsName, bg, f)
	}
	h.emit("concsum case=%s fs=%s bg=%v writers=%d readers=%d checks=%d closerace=%v errsAfterClose=%d", name, fsName, bg, nW, nR, atomic.LoadInt64(&checks), closeAt >= 0, atomic.LoadInt64(&closedErrs))
	h.stat("conc.fs." + fsName)
}

// dbGoroutines counts goroutines that were started inside the pogreb package (their creation
// site is in the package), i.e. background workers.
func dbGoroutines() int {
	buf := make([]byte, 1<<20)
	n := runtime.Stack(buf, true)
	cnt := 0
	for _, g := range strings.Split(string(buf[:n]), "\n\n") {
		if i := strings.Index(g, "created by "); i >= 0 && strings.Contains(g[i:], "github.com/akrylysov/pogreb.") {
			cnt++
		}
	}
	return cnt
}

func hxShort(b []byte) string {
	s := string(b)
	if len(s) > 3000 {
		s = s[:3000]
	}
	out := make([]byte, 0, len(s))
	for i := 0; i < len(s); i++ {
		c := s[i]
		if c == '\n' {
			out = append(out, '|')
		} else if c == ' ' || c == '\t' {
			out = append(out, '_')
		} else {
			out = append(out, c)
		}
	}
	return string(out)
}

func (h *harness) runConc(seed uint64, cases, nops int) {
	h.runCloseRaces(seed)
	h.memLockCase(fmt.Sprintf("conc-%d-memlock", seed))
	for i := 0; i < 2; i++ {
		h.recoverWithWorkerCase(fmt.Sprintf("conc-%d-recoverworker%d", seed, i), seed+uint64(i))
	}
	r := &rng{s: seed*0x9e3779b97f4a7c15 + 99}
	for i := 0; i < cases; i++ {
		name := fmt.Sprintf("conc-%d-%d", seed, i)
		h.emit("case %s", name)
		h.concCase(r, name, nops)
		h.emit("end")
	}
}

// recoverWithWorkerCase (C10): a database that was not closed is opened with the background worker
// configured to compact every millisecond. Recovery reads and rebuilds log and index without any
// lock, so the worker must not run before it is done: Open succeeds, the contents are complete, no
// panic, and Close leaves no goroutine behind.
func (h *harness) recoverWithWorkerCase(name string, seed uint64) {
	h.emit("case %s", name)
	defer h.emit("end")
	r := &rng{s: seed*0x9e3779b97f4a7c15 + 4711}
	sim := simfs.New()
	o := &pogreb.Options{FileSystem: sim}
	pogreb.VerifSetThresholds(o, 16384, 1, 0.05)
	db, err := pogreb.Open("rw", o)
	if err != nil {
		h.emit("concfail case=%s open: %s", name, errStr(err))
		return
	}
	want := map[string]string{}
	for i := 0; i < 4000; i++ {
		k := fmt.Sprintf("k%03d", r.intn(300))
		v := fmt.Sprintf("v%d-%s", i, string(patternBytes(40+r.intn(40), byte(i))))
		if err := db.Put([]byte(k), []byte(v)); err != nil {
			h.emit("concfail case=%s put: %s", name, errStr(err))
			return
		}
		want[k] = v
	}
	sim.Kill() // the process dies: lock file present, nothing closed
	before := dbGoroutines()
	o2 := &pogreb.Options{FileSystem: sim, BackgroundCompactionInterval: time.Millisecond, BackgroundSyncInterval: time.Millisecond}
	pogreb.VerifSetThresholds(o2, 16384, 1, 0.05)
	checks := 0
	var db2 *pogreb.DB
	func() {
		defer func() {
			if e := recover(); e != nil {
				err = fmt.Errorf("panic: %v", e)
			}
		}()
		db2, err = pogreb.Open("rw", o2)
	}()
	if err != nil {
		h.emit("concfail case=%s the recovering Open with a background worker configured failed: %s", name, errStr(err))
		return
	}
	checks++
	time.Sleep(20 * time.Millisecond) // let the worker compact for a while
	for k, v := range want {
		got, err := db2.Get([]byte(k))
		if err != nil || string(got) != v {
			h.emit("concfail case=%s after recovery with a background worker key %s reads %q (%v), want %q", name, k, hxShort(got), err, hxShort([]byte(v)))
			break
		}
		checks++
	}
	if int(db2.Count()) != len(want) {
		h.emit("concfail case=%s after recovery with a background worker Count=%d, want %d", name, db2.Count(), len(want))
	}
	if err := db2.Close(); err != nil {
		h.emit("concfail case=%s Close after recovery with a background worker: %s", name, errStr(err))
	}
	time.Sleep(5 * time.Millisecond)
	if n := dbGoroutines(); n > before {
		h.emit("concfail case=%s %d goroutine(s) of the database still running after Close", name, n-before)
	}
	h.emit("concsum case=%s variant=recover-with-worker checks=%d", name, checks)
}

// memLockCase (C13 on fs.Mem): openers spin on the lock while the holder releases it; at no time may
// two of them hold it.
func (h *harness) memLockCase(name string) {
	h.emit("case %s", name)
	defer h.emit("end")
	checks := 0
	path := "memlock-" + name + "/lock"
	for round := 0; round < 200; round++ {
		lk, _, err := fs.Mem.CreateLockFile(path, 0640)
		if err != nil {
			h.emit("concfail case=%s fs.Mem: the lock of an unused directory is not available: %s", name, errStr(err))
			return
		}
		got := make(chan fs.LockFile, 8)
		stop := make(chan struct{})
		var wg sync.WaitGroup
		for i := 0; i < 4; i++ {
			wg.Add(1)
			go func() {
				defer wg.Done()
				for {
					select {
					case <-stop:
						return
					default:
					}
					if l, _, err := fs.Mem.CreateLockFile(path, 0640); err == nil {
						got <- l
						return
					}
				}
			}()
		}
		if err := lk.Unlock(); err != nil {
			h.emit("concfail case=%s fs.Mem: Unlock of the holder: %s", name, errStr(err))
		}
		first := <-got
		_, _, err2 := fs.Mem.CreateLockFile(path, 0640)
		close(stop)
		wg.Wait()
		if err2 == nil || len(got) > 0 {
			h.emit("concfail case=%s fs.Mem: two holders of one lock at the same time (round %d): an opener took over an entry that was being removed", name, round)
			return
		}
		checks++
		if err := first.Unlock(); err != nil {
			h.emit("concfail case=%s fs.Mem: Unlock of the second holder: %s", name, errStr(err))
			return
		}
	}
	h.emit("concsum case=%s variant=memlock checks=%d", name, checks)
}
