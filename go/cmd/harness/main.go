//go:build verif

// harness drives the real pogreb (built from /repo's working tree with -tags verif) and
// writes a trace of operations and observations in the line protocol that the Lean driver
// (lean/Main.lean) re-executes on the model and the spec.
package main

import (
	"bufio"
	"flag"
	"fmt"
	"io"
	"log"
	"os"
	"runtime/debug"
	"runtime/pprof"
	"strings"

	"github.com/akrylysov/pogreb"
)

func main() {
	stream := flag.String("stream", "ops", "ops|crash|ploss|tails|conc|lock|alias|fsdiff|golden")
	seed := flag.Uint64("seed", 1, "PRNG seed")
	cases := flag.Int("cases", 20, "number of generated cases")
	nops := flag.Int("nops", 200, "operations per case")
	out := flag.String("out", "-", "trace output file")
	corpus := flag.String("corpus", "", "directory of .case files to run first")
	tier := flag.String("tier", "quick", "quick|thorough")
	prop := flag.String("prop", "", "property id the run is for (selects generator emphasis)")
	replay := flag.String("replay", "", "replay one .case file")
	goldenDir := flag.String("golden", "", "golden corpus directory (stream golden)")
	dumpCases := flag.String("dumpcases", "", "directory to write every generated case to (<name>.case)")
	flag.Parse()

	pogreb.SetLogger(log.New(io.Discard, "", 0))
	// every recovering Open allocates the 512 KiB segment table: collect less often
	debug.SetGCPercent(800)
	if p := os.Getenv("VERIF_CPUPROFILE"); p != "" {
		if f, err := os.Create(p); err == nil {
			_ = pprof.StartCPUProfile(f)
			defer pprof.StopCPUProfile()
		}
	}

	var w *bufio.Writer
	if *out == "-" {
		w = bufio.NewWriterSize(os.Stdout, 1<<20)
	} else {
		f, err := os.Create(*out)
		if err != nil {
			log.Fatal(err)
		}
		defer f.Close()
		w = bufio.NewWriterSize(f, 1<<20)
	}
	defer w.Flush()

	h := &harness{w: w, tier: *tier, prop: *prop, stats: map[string]int{}, dumpDir: *dumpCases}
	switch *stream {
	case "ops", "crash", "ploss":
		h.runOpsStream(*stream, *seed, *cases, *nops, *corpus, *replay)
	case "tails":
		h.runTails(*seed, *cases)
	case "lock":
		h.runLock(*seed, *cases)
	case "conc":
		h.runConc(*seed, *cases, *nops)
	case "alias":
		h.runAlias(*seed, *cases, *nops)
	case "fsdiff":
		h.runFSDiff(*seed, *cases, *nops)
	case "golden":
		h.runGolden(*goldenDir, *seed)
	case "bigvalue":
		h.runBigValue()
	case "soak":
		h.runSoak(*seed, *cases)
	default:
		log.Fatalf("unknown stream %q", *stream)
	}
	// Input distribution, for the evidence file.
	var keys []string
	for k := range h.stats {
		keys = append(keys, k)
	}
	sortStrings(keys)
	var sb strings.Builder
	for _, k := range keys {
		fmt.Fprintf(&sb, " %s=%d", k, h.stats[k])
	}
	fmt.Fprintf(w, "stats%s\n", sb.String())
}
