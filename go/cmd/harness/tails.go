//go:build verif

package main

import (
	"fmt"
	"hash/crc32"
	"os"
	"path/filepath"
	"runtime"
	"strings"

	"github.com/akrylysov/pogreb"
	"github.com/akrylysov/pogreb/fs"
	"verif/simfs"
)

// tails stream (C08, C19): a valid database image plus a damaged tail on one segment;
// the real recovering Open against the model's validating reader.

func segFilesLine(im *simfs.Image) string {
	var parts []string
	for _, name := range im.Names() {
		if strings.HasPrefix(name, dbDir+"/") && strings.HasSuffix(name, ".psg") {
			b, _ := im.File(name)
			data := []byte{}
			if len(b) > 512 {
				data = b[512:]
			}
			parts = append(parts, fmt.Sprintf("%s:%s", strings.TrimSuffix(strings.TrimPrefix(name, dbDir+"/"), ".psg"), hx(data)))
		}
	}
	if len(parts) == 0 {
		return "-"
	}
	return strings.Join(parts, " ")
}

func (h *harness) tailCase(r *rng, name string) {
	c := &Case{Name: name}
	c.Cfg = Cfg{MaxSeg: []uint32{1024, 2048, 8192, 65536}[r.intn(4)], MinSeg: 1 << 30, Frag: 0.5, FragStr: "0.5", HashSeed: uint32(r.next()), FSName: "sim"}
	onePer := r.chance(20) // one record per segment: a damaged record empties its whole segment
	if onePer {
		c.Cfg.MaxSeg = 1024
		h.stat("tail.oneper")
	}
	sim := simfs.New()
	opts := c.Cfg.options(sim)
	db, err := pogreb.Open(dbDir, opts)
	if err != nil {
		h.emit("tailsetup err=%s", errStr(err))
		return
	}
	db.VerifSetHashSeed(c.Cfg.HashSeed)
	nrec := 2 + r.intn(30)
	var keys [][]byte
	for i := 0; i < nrec; i++ {
		k := []byte(fmt.Sprintf("k%d", r.intn(12)))
		emptyRec := r.chance(6) // Put("", ""): a record whose 6-byte header is all zeroes
		if emptyRec {
			k = []byte{}
		}
		longKey := !emptyRec && !onePer && r.chance(3) // the last legal key lengths (16-bit size arithmetic)
		if longKey {
			k = patternBytes(65530+r.intn(6), byte(r.next()))
			h.stat("tail.longkey")
		}
		keys = append(keys, k)
		if r.chance(20) {
			_ = db.Delete(k)
		} else {
			// sizes around sector and bufio (4096) boundaries
			n := []int{0, 1, 7, 60, 200, 490, 500, 510, 1000, 4070, 4090}[r.intn(11)]
			if onePer {
				n = 300 + r.intn(180)
			}
			if emptyRec {
				n = 0
				h.stat("tail.emptyrecord")
			}
			if longKey {
				n = r.intn(20)
			}
			room := int(c.Cfg.MaxSeg) - 512 - 10 - len(k)
			if n > room && room >= 0 {
				n = r.intn(room + 1)
			}
			_ = db.Put(k, patternBytes(n, byte(r.next())))
		}
	}
	c.Pool = keys
	base := sim.Snapshot() // the process dies here: lock file present
	var segNames []string
	for _, n := range base.Names() {
		if strings.HasSuffix(n, ".psg") {
			segNames = append(segNames, n)
		}
	}
	variants := 6
	if h.tier == "thorough" {
		variants = 30
	}
	for v := 0; v < variants; v++ {
		im := base.Clone()
		target := segNames[len(segNames)-1]
		if r.chance(25) {
			target = segNames[r.intn(len(segNames))]
		}
		id := im.Dir[target]
		data := append([]byte(nil), im.Files[id]...)
		// offsets of record starts
		var starts []int
		for off := 512; off+6 <= len(data); {
			ks := int(data[off]) | int(data[off+1])<<8
			vs := (int(data[off+2]) | int(data[off+3])<<8 | int(data[off+4])<<16 | int(data[off+5])<<24) & 0x7fffffff
			sz := 10 + ks + vs
			if off+sz > len(data) {
				break
			}
			starts = append(starts, off)
			off += sz
		}
		kind := r.pick(12, 14, 20, 10, 10, 8, 14, 12, 10)
		if len(starts) == 0 && (kind == 1 || kind == 2 || kind == 5) {
			kind = 0
		}
		desc := ""
		hugeClaim := uint32(0) // size claimed by a crafted header (bounds the cost of the real-FS runs)
		switch kind {
		case 0: // zeroes
			n := []int{1, 5, 6, 9, 10, 11, 100, 512, 4096}[r.intn(9)]
			data = append(data, make([]byte, n)...)
			desc = fmt.Sprintf("zeros%d", n)
		case 1: // truncate inside the last record
			s := starts[len(starts)-1]
			cut := s + r.intn(len(data)-s)
			if r.chance(30) {
				cut = s + 1 + r.intn(5)
			}
			if cut > len(data) {
				cut = len(data)
			}
			data = data[:cut]
			desc = fmt.Sprintf("trunc@%d", cut)
		case 2: // flip one bit in key, value or checksum of some record
			si := r.intn(len(starts))
			s := starts[si]
			end := len(data)
			if si+1 < len(starts) {
				end = starts[si+1]
			}
			if end-s > 6 {
				pos := s + 6 + r.intn(end-s-6)
				data[pos] ^= 1 << uint(r.intn(8))
				desc = fmt.Sprintf("flip@%d", pos)
				h.stat("tail.flip")
			}
		case 3: // garbage
			n := 1 + r.intn(40)
			g := make([]byte, n)
			for i := range g {
				g[i] = byte(r.next())
			}
			if n >= 2 && r.chance(50) {
				g[0], g[1] = byte(r.intn(4)), 0 // small key size: plausible header
				if n >= 6 {
					g[2], g[3], g[4], g[5] = byte(r.intn(30)), 0, 0, 0
				}
			}
			data = append(data, g...)
			desc = fmt.Sprintf("garbage%d", n)
		case 4: // huge claimed sizes (C19): both record types, followed by a few bytes
			vs := []uint32{1 << 20, 64 << 20, 256 << 20, 1<<31 - 1, 1<<31 - 70000}[r.intn(5)]
			if r.chance(50) {
				vs |= 1 << 31
			}
			ks := []int{0, 1, 65535}[r.intn(3)]
			hugeClaim = vs &^ (1 << 31)
			hd := []byte{byte(ks), byte(ks >> 8), byte(vs), byte(vs >> 8), byte(vs >> 16), byte(vs >> 24)}
			data = append(data, hd...)
			data = append(data, make([]byte, r.intn(20))...)
			desc = fmt.Sprintf("huge:%d:%d", ks, vs)
			h.stat("tail.huge")
		case 5: // damaged record followed by a well-formed one
			s := starts[len(starts)-1]
			good := append([]byte(nil), data[s:]...)
			data[s+6] ^= 0x40
			data = append(data, good...)
			desc = "damaged+valid"
		case 6: // header-only / partial header
			n := 1 + r.intn(9)
			hd := []byte{3, 0, 5, 0, 0, 0, 'a', 'b', 'c'}
			data = append(data, hd[:n]...)
			desc = fmt.Sprintf("partialhdr%d", n)
		case 7: // nothing (clean unclean shutdown)
			desc = "none"
		case 8: // records the writer never produces: delete flag together with a value
			k := keys[r.intn(len(keys))]
			v := patternBytes(1+r.intn(40), byte(r.next()))
			hd := []byte{byte(len(k)), byte(len(k) >> 8), byte(len(v)), byte(len(v) >> 8), 0, 0x80}
			if r.chance(50) {
				// well-formed by the documented layout: checksum over header, key and value
				rec := append(append(append([]byte{}, hd...), k...), v...)
				c := crc32.ChecksumIEEE(rec)
				rec = append(rec, byte(c), byte(c>>8), byte(c>>16), byte(c>>24))
				data = append(data, rec...)
				desc = "delwithvalue"
			} else {
				// checksum of header+key placed where a reader that ignores the value size would look;
				// the "value" holds a well-formed put record of a key that was never written
				rec := append(append([]byte{}, hd...), k...)
				c := crc32.ChecksumIEEE(rec)
				rec = append(rec, byte(c), byte(c>>8), byte(c>>16), byte(c>>24))
				nk, nv := []byte("never"), []byte("written")
				in := append(append([]byte{byte(len(nk)), 0, byte(len(nv)), 0, 0, 0}, nk...), nv...)
				c2 := crc32.ChecksumIEEE(in)
				in = append(in, byte(c2), byte(c2>>8), byte(c2>>16), byte(c2>>24))
				rec = append(rec, in...)
				rec[2], rec[3] = byte(len(in)), byte(len(in)>>8)
				data = append(data, rec...)
				desc = "delcrcafterkey"
			}
		}
		im.Files[id] = data
		h.stat("tail." + strings.TrimRight(strings.SplitN(strings.SplitN(desc, "@", 2)[0], ":", 2)[0], "0123456789"))
		h.emit("case %s-v%d", name, v)
		h.emit("cfg %s hashseed=%d", c.Cfg.line(), c.Cfg.HashSeed)
		h.emit("tail target=%s kind=%s", strings.TrimPrefix(target, dbDir+"/"), desc)
		h.emit("adopt %s", segFilesLine(im))
		fs2 := simfs.FromImage(im)
		o2 := c.Cfg.options(fs2)
		total := 0
		for n, fid := range im.Dir {
			if strings.HasPrefix(n, dbDir+"/") {
				total += len(im.Files[fid])
			}
		}
		var before, after runtime.MemStats
		runtime.GC()
		runtime.ReadMemStats(&before)
		db2, err := safeOpen(dbDir, o2)
		runtime.ReadMemStats(&after)
		if err != nil {
			h.emit("open kind=recover res=%s", errStr(err))
			h.emit("end")
			continue
		}
		h.emit("open kind=recover res=ok seed=%d", db2.VerifHashSeed())
		h.emit("alloc bytes=%d filebytes=%d", after.TotalAlloc-before.TotalAlloc, total)
		if (kind == 4 && hugeClaim <= 64<<20) || (kind == 3 && r.chance(30)) {
			// the same image on the real file systems: their Slice/ReadAt paths allocate differently
			for _, fsName := range []string{"os", "mmap"} {
				if a, ok := h.osAlloc(im, o2, fsName); ok {
					h.emit("alloc bytes=%d filebytes=%d fs=%s", a, total, fsName)
					h.stat("tail.alloc." + fsName)
				}
			}
		}
		h.emit("rstate %s", observe(db2, keys))
		h.emit("segs %s", segsLine(db2, func(n string) []byte { b, _ := fs2.Snapshot().File(dbDir + "/" + n); return b }))
		h.emit("%s", dumpLine(db2))
		// the recovered database keeps working and survives a second unclean shutdown
		k := []byte("after")
		err = db2.Put(k, []byte("x"))
		h.emit("put %s %s %s", hx(k), hx([]byte("x")), errStr(err))
		if r.chance(50) {
			// ... also after a clean restart in between: writes of the new session must be replayed
			// after everything the recovery kept
			h.stat("tail.restart")
			err = db2.Close()
			h.emit("close %s", errStr(err))
			db2, err = safeOpen(dbDir, o2)
			if err != nil {
				h.emit("open kind=clean res=%s", errStr(err))
				h.emit("end")
				continue
			}
			h.emit("open kind=clean res=ok seed=%d", db2.VerifHashSeed())
			for i := 0; i < 3; i++ {
				kk := keys[r.intn(len(keys))]
				vv := patternBytes(1+r.intn(6), byte(r.next()))
				err = db2.Put(kk, vv)
				h.emit("put %s %s %s", hx(kk), hx(vv), errStr(err))
			}
		}
		fs2.Kill()
		h.emit("kill")
		db3, err := safeOpen(dbDir, o2)
		if err != nil {
			h.emit("open kind=recover res=%s", errStr(err))
		} else {
			h.emit("open kind=recover res=ok seed=%d", db3.VerifHashSeed())
			h.emit("state %s", observe(db3, append(keys, k)))
		}
		h.emit("end")
	}
}

func (h *harness) runTails(seed uint64, cases int) {
	r := &rng{s: seed*0x9e3779b97f4a7c15 + 777}
	for i := 0; i < cases; i++ {
		h.tailCase(r, fmt.Sprintf("tails-%d-%d", seed, i))
	}
}

// osAlloc writes the image to a temporary directory and measures what the recovering Open allocates
// on a real file system.
func (h *harness) osAlloc(im *simfs.Image, opts *pogreb.Options, fsName string) (uint64, bool) {
	tmp, err := os.MkdirTemp("", "tailos")
	if err != nil {
		return 0, false
	}
	defer os.RemoveAll(tmp)
	dir := filepath.Join(tmp, "db")
	if err := os.MkdirAll(dir, 0755); err != nil {
		return 0, false
	}
	for n, fid := range im.Dir {
		if strings.HasPrefix(n, dbDir+"/") {
			if err := os.WriteFile(filepath.Join(dir, strings.TrimPrefix(n, dbDir+"/")), im.Files[fid], 0640); err != nil {
				return 0, false
			}
		}
	}
	o := *opts
	o.FileSystem = fs.OS
	if fsName == "mmap" {
		o.FileSystem = fs.OSMMap
	}
	var before, after runtime.MemStats
	runtime.GC()
	runtime.ReadMemStats(&before)
	db, err := pogreb.Open(dir, &o)
	runtime.ReadMemStats(&after)
	if err != nil {
		return 0, false
	}
	db.Close()
	return after.TotalAlloc - before.TotalAlloc, true
}

// safeOpen: a panic inside the recovering Open is a failure of the property (the recovering Open
// neither fails nor panics), not of the harness.
func safeOpen(dir string, o *pogreb.Options) (db *pogreb.DB, err error) {
	defer func() {
		if e := recover(); e != nil {
			db, err = nil, fmt.Errorf("panic: %v", e)
		}
	}()
	return pogreb.Open(dir, o)
}
