//go:build verif

package main

import (
	"hash/crc32"
	"os"
	"runtime/debug"

	"github.com/akrylysov/pogreb"
	"github.com/akrylysov/pogreb/fs"
)

// bigvalue stream (C16, thorough tier): the 512 MiB value limit on real file systems. The values
// are too large for the Lean driver to hold, so only lengths and outcomes go into the trace.
func (h *harness) runBigValue() {
	const limit = 512 << 20
	for _, fsName := range []string{"os", "mmap"} {
		tmp, _ := os.MkdirTemp("", "big")
		var fsys fs.FileSystem = fs.OS
		if fsName == "mmap" {
			fsys = fs.OSMMap
		}
		h.emit("case bigvalue-%s", fsName)
		db, err := pogreb.Open(tmp+"/db", &pogreb.Options{FileSystem: fsys})
		if err != nil {
			h.emit("concfail bigvalue open: %s", errStr(err))
			continue
		}
		_ = db.Put([]byte("small"), []byte("v"))
		// quick tier: values that outgrow a small initial mapping / several doublings at once;
		// thorough tier: the limit itself as well
		sizes := []int{17<<20 + 5, 40 << 20, 150 << 20}
		if h.tier == "thorough" {
			sizes = append(sizes, limit+1, limit, limit-1)
		}
		for _, n := range sizes {
			v := make([]byte, n)
			for i := 0; i < n; i += 4093 {
				v[i] = byte(i)
			}
			want := crc32.ChecksumIEEE(v)
			sizeBefore, _ := db.FileSize()
			countBefore := db.Count()
			err := db.Put([]byte("big"), v)
			v = nil
			debug.FreeOSMemory()
			rt, unchanged := 0, 0
			if err == nil {
				func() {
					defer func() {
						if e := recover(); e != nil {
							h.emit("concfail bigvalue fs=%s Get of a %d-byte value panicked: %v", fsName, n, e)
						}
					}()
					got, gerr := db.Get([]byte("big"))
					if gerr == nil && len(got) == n && crc32.ChecksumIEEE(got) == want {
						rt = 1
					}
				}()
			} else {
				sizeAfter, _ := db.FileSize()
				if sizeAfter == sizeBefore && db.Count() == countBefore {
					unchanged = 1
				}
			}
			debug.FreeOSMemory()
			h.emit("bigvalue fs=%s len=%d res=%s roundtrip=%d unchanged=%d", fsName, n, errStr(err), rt, unchanged)
			h.stat("bigvalue")
		}
		// across a clean restart
		if h.tier != "thorough" {
			if err := db.Close(); err != nil {
				h.emit("concfail bigvalue close: %s", errStr(err))
			}
		} else if err := db.Close(); err == nil {
			if db2, err := pogreb.Open(tmp+"/db", &pogreb.Options{FileSystem: fsys}); err == nil {
				got, _ := db2.Get([]byte("big"))
				rt := 0
				if len(got) == limit-1 {
					rt = 1
				}
				h.emit("bigvalue fs=%s len=%d res=ok roundtrip=%d unchanged=0 afterrestart=1", fsName, limit-1, rt)
				db2.Close()
			}
		}
		h.emit("end")
		os.RemoveAll(tmp)
	}
}
