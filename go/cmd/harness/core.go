//go:build verif

package main

import (
	"bufio"
	"encoding/hex"
	"fmt"
	"hash/crc32"
	"sort"
	"strings"

	"github.com/akrylysov/pogreb"
	"github.com/akrylysov/pogreb/fs"
	"verif/simfs"
)

const dbDir = "db"

type harness struct {
	w     *bufio.Writer
	tier  string
	prop  string
	stats map[string]int
	// dumpDir, when set, receives every generated case as <name>.case
	dumpDir string
}

func sortStrings(s []string) { sort.Strings(s) }

func (h *harness) emit(format string, a ...interface{}) {
	fmt.Fprintf(h.w, format, a...)
	h.w.WriteByte('\n')
}

func (h *harness) stat(k string) { h.stats[k]++ }

// splitmix64: every random choice derives from one state.
type rng struct{ s uint64 }

func (r *rng) next() uint64 {
	r.s += 0x9e3779b97f4a7c15
	z := r.s
	z = (z ^ (z >> 30)) * 0xbf58476d1ce4e5b9
	z = (z ^ (z >> 27)) * 0x94d049bb133111eb
	return z ^ (z >> 31)
}
func (r *rng) intn(n int) int {
	if n <= 0 {
		return 0
	}
	return int(r.next() % uint64(n))
}
func (r *rng) chance(pct int) bool { return r.intn(100) < pct }
func (r *rng) pick(ws ...int) int {
	t := 0
	for _, w := range ws {
		t += w
	}
	x := r.intn(t)
	for i, w := range ws {
		if x < w {
			return i
		}
		x -= w
	}
	return len(ws) - 1
}

func hx(b []byte) string {
	if len(b) == 0 {
		return "-"
	}
	return hex.EncodeToString(b)
}

func unhx(s string) []byte {
	if s == "-" {
		return []byte{}
	}
	b, err := hex.DecodeString(s)
	if err != nil {
		panic(err)
	}
	return b
}

func errStr(err error) string {
	if err == nil {
		return "ok"
	}
	s := err.Error()
	switch {
	case strings.Contains(s, "key is too large"):
		return "keyTooLarge"
	case strings.Contains(s, "value is too large"):
		return "valueTooLarge"
	case strings.Contains(s, "database is locked"):
		return "locked"
	case strings.Contains(s, "compaction is already"), strings.Contains(s, "busy"):
		return "busy"
	case strings.Contains(s, "closed"):
		return "closed"
	case strings.Contains(s, "corrupted"):
		return "corrupted"
	}
	return "err:" + strings.ReplaceAll(s, " ", "_")
}

// Cfg is the configuration of one case.
type Cfg struct {
	MaxSeg   uint32
	MinSeg   uint32
	Frag     float32
	FragStr  string
	SyncMode bool // BackgroundSyncInterval = -1
	HashSeed uint32
	FSName   string // sim | mem | os | mmap
}

func (c Cfg) line() string {
	s := 0
	if c.SyncMode {
		s = 1
	}
	return fmt.Sprintf("maxseg=%d minseg=%d frag=%s sync=%d fs=%s", c.MaxSeg, c.MinSeg, c.FragStr, s, c.FSName)
}

func (c Cfg) options(fsys fs.FileSystem) *pogreb.Options {
	o := &pogreb.Options{FileSystem: fsys}
	if c.SyncMode {
		o.BackgroundSyncInterval = -1
	}
	pogreb.VerifSetThresholds(o, c.MaxSeg, c.MinSeg, c.Frag)
	return o
}

// world is one database session on some file system.
type world struct {
	h    *harness
	cfg  Cfg
	fsys fs.FileSystem
	sim  *simfs.FS // non-nil when fsys is a simfs
	db   *pogreb.DB
}

// contents reads everything through Items and cross-checks Count.
func readAll(db *pogreb.DB) (map[string][]byte, []string, error) {
	m := map[string][]byte{}
	var dups []string
	it := db.Items()
	for {
		k, v, err := it.Next()
		if err == pogreb.ErrIterationDone {
			break
		}
		if err != nil {
			return m, dups, err
		}
		if _, ok := m[string(k)]; ok {
			dups = append(dups, hx(k))
		}
		m[string(k)] = v
	}
	return m, dups, nil
}

func itemsStr(m map[string][]byte) string {
	if len(m) == 0 {
		return "-"
	}
	ks := make([]string, 0, len(m))
	for k := range m {
		ks = append(ks, k)
	}
	sort.Strings(ks)
	var sb strings.Builder
	for i, k := range ks {
		if i > 0 {
			sb.WriteByte(',')
		}
		sb.WriteString(hx([]byte(k)))
		sb.WriteByte('=')
		sb.WriteString(hx(m[k]))
	}
	return sb.String()
}

// observe reads the full externally visible state of an open database:
// Items (with duplicates reported), Count, and Get/Has agreement for the given keys.
func observe(db *pogreb.DB, probe [][]byte) (res string) {
	defer func() {
		if e := recover(); e != nil {
			res = "itemserr=panic:" + strings.ReplaceAll(fmt.Sprint(e), " ", "_")
		}
	}()
	m, dups, err := readAll(db)
	if err != nil {
		return "itemserr=" + errStr(err)
	}
	cnt := db.Count()
	bad := ""
	for _, k := range probe {
		v, err := db.Get(k)
		hs, err2 := db.Has(k)
		mv, inItems := m[string(k)]
		if err != nil || err2 != nil {
			bad = "geterr:" + hx(k)
			break
		}
		if (v != nil) != inItems || hs != inItems || (inItems && string(v) != string(mv)) {
			bad = "disagree:" + hx(k)
			break
		}
	}
	s := fmt.Sprintf("count=%d n=%d items=%s", cnt, len(m), itemsStr(m))
	if len(dups) > 0 {
		s += " dups=" + strings.Join(dups, ",")
	}
	if bad != "" {
		s += " bad=" + bad
	}
	return s
}

// segsDurable, when set, returns the durable length of a segment file (power-loss stream).
var segsDurable func(name string) int

func segsLine(db *pogreb.DB, read func(name string) []byte) string {
	var sb strings.Builder
	for i, s := range db.VerifSegments() {
		if i > 0 {
			sb.WriteByte(' ')
		}
		data := read(s.Name)
		var crc uint32
		n := 0
		if len(data) >= 512 {
			crc = crc32.ChecksumIEEE(data[512:])
			n = len(data)
		}
		b := func(x bool) int {
			if x {
				return 1
			}
			return 0
		}
		fmt.Fprintf(&sb, "%d:%d:%d:%d:%d:%d:%d:%d", s.ID, s.SequenceID, s.Size, n, crc, b(s.Full), b(s.Current), s.DeleteRecords)
		if segsDurable != nil {
			fmt.Fprintf(&sb, ":%d", segsDurable(s.Name))
		}
	}
	if sb.Len() == 0 {
		return "-"
	}
	return sb.String()
}

func dumpLine(db *pogreb.DB) string {
	d, err := db.VerifDumpIndex()
	if err != nil {
		return "dump err=" + errStr(err)
	}
	var fr []string
	for _, o := range d.FreeBucketOffs {
		fr = append(fr, fmt.Sprint(o))
	}
	frs := "-"
	if len(fr) > 0 {
		frs = strings.Join(fr, ",")
	}
	return fmt.Sprintf("dump level=%d split=%d nb=%d nk=%d free=%s main=%s overflow=%s",
		d.Level, d.SplitBucketIdx, d.NumBuckets, d.NumKeys, frs, hx(d.Main[512:]), hx(d.Overflow[512:]))
}
