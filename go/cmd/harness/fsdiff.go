//go:build verif

package main

import (
	"fmt"
	"hash/crc32"
	"os"
	"path/filepath"
	"sort"
	"strings"

	"github.com/akrylysov/pogreb"
	"github.com/akrylysov/pogreb/fs"
	"verif/simfs"
)

// fsdiff stream (C17): one program of API calls on fs.Mem, fs.OS, fs.OSMMap and simfs;
// per-call results and the bytes of the segment files must be identical. The simfs run is also
// what the Lean driver replays (it goes through the ordinary ops stream lines).

type fsProbe interface {
	list(dir string) []string
	read(name string) []byte
}

func runProgram(c *Case, fsName string, r0 uint64) (trace []string, segs string, err error) {
	var fsys fs.FileSystem
	dir := "fsd-" + c.Name
	var tmp string
	switch fsName {
	case "mem":
		fsys = fs.Mem
	case "os", "mmap":
		tmp, _ = os.MkdirTemp("", "fsd")
		defer os.RemoveAll(tmp)
		dir = filepath.Join(tmp, "db")
		fsys = fs.OS
		if fsName == "mmap" {
			fsys = fs.OSMMap
		}
	default:
		fsys = simfs.New()
	}
	o := c.Cfg.options(fsys)
	db, e := pogreb.Open(dir, o)
	if e != nil {
		return nil, "", e
	}
	db.VerifSetHashSeed(c.Cfg.HashSeed)
	rec := func(f string, a ...interface{}) { trace = append(trace, fmt.Sprintf(f, a...)) }
	bkNo := 0
	reseeded := false
	step := func(op Op) (stop bool) {
		defer func() {
			if e := recover(); e != nil {
				rec("%s PANIC %v", op.Kind, e)
			}
		}()
		switch op.Kind {
		case "put":
			rec("put %s", errStr(db.Put(op.K, op.V)))
		case "del":
			rec("del %s", errStr(db.Delete(op.K)))
		case "get":
			v, err := db.Get(op.K)
			rec("get %s %v %s", errStr(err), v != nil, hx(v))
		case "has":
			b, err := db.Has(op.K)
			rec("has %s %v", errStr(err), b)
		case "count":
			rec("count %d", db.Count())
			// the other read-only entry points
			n, err := db.FileSize()
			rec("filesize %s positive=%v", errStr(err), n > 0)
			rec("metrics %v", db.Metrics() != nil)
		case "items":
			rec("items %s", observe(db, c.Pool))
		case "sync":
			rec("sync %s", errStr(db.Sync()))
		case "compact", "compactx":
			cr, err := db.Compact()
			rec("compact %s %d %d", errStr(err), cr.CompactedSegments, cr.ReclaimedRecords)
		case "scan":
			// a full scan with writers between Next calls: every (key, value) returned, in order
			it := db.Items()
			sub := append([]SubOp(nil), op.Sub...)
			if reseeded {
				// the number of items a scan with writers returns depends on its order, which depends on
				// the hash seed, which each run has drawn for itself by now: a writer placed after k Next
				// calls would run in one run and not in another. All writers go first then.
				for i := range sub {
					sub[i].At = 0
				}
			}
			n := 0
			for {
				for len(sub) > 0 && sub[0].At <= n {
					u := sub[0]
					sub = sub[1:]
					switch u.Kind {
					case "put":
						rec("scan.put %s", errStr(db.Put(u.K, u.V)))
					case "del":
						rec("scan.del %s", errStr(db.Delete(u.K)))
					case "compact":
						_, err := db.Compact()
						rec("scan.compact %s", errStr(err))
					}
				}
				k, v, err := it.Next()
				if err != nil {
					if reseeded {
						rec("scan.end %s", errStr(err))
					} else {
						rec("scan.end %s n=%d", errStr(err), n)
					}
					break
				}
				if !reseeded {
					// after a recovery every run has its own random hash seed: the order of a scan (and
					// with writers in between, what it sees) legitimately differs from run to run
					rec("scan.next %s %s", hx(k), hx(v))
				}
				n++
				if n > 100000 {
					break
				}
			}
		case "backup":
			// Backup with writers placed at its yield points; the backup is opened and observed
			bkNo++
			path := filepath.Join(filepath.Dir(dir), fmt.Sprintf("bk%d-%s", bkNo, c.Name))
			if fsName == "mem" || fsName == "sim" {
				path = fmt.Sprintf("bk%d-%s", bkNo, c.Name)
			}
			sub := op.Sub
			yieldNo := 0
			pogreb.VerifSetYield(func(point string) {
				if !strings.HasPrefix(point, "backup.") {
					return
				}
				for len(sub) > 0 && sub[0].At <= yieldNo {
					u := sub[0]
					sub = sub[1:]
					switch u.Kind {
					case "put":
						rec("backup.put %s", errStr(db.Put(u.K, u.V)))
					case "del":
						rec("backup.del %s", errStr(db.Delete(u.K)))
					}
				}
				yieldNo++
			})
			err := db.Backup(path)
			pogreb.VerifSetYield(nil)
			rec("backup %s", errStr(err))
			if err == nil {
				o2 := *o
				if db2, err := pogreb.Open(path, &o2); err != nil {
					rec("backup.open %s", errStr(err))
				} else {
					rec("backup.state %s", observe(db2, c.Pool))
					rec("backup.close %s", errStr(db2.Close()))
				}
			}
		case "reopen":
			rec("close %s", errStr(db.Close()))
			db, e = pogreb.Open(dir, o)
			if e != nil {
				return true
			}
			if !reseeded && db.Count() == 0 {
				// a database that is empty at Open draws a new random hash seed: pin it again, so that
				// the order of scans stays the same in every run
				db.VerifSetHashSeed(c.Cfg.HashSeed)
			}
			rec("reopen")
		case "crashreopen", "crashtorn", "crashtornhdr", "failopen":
			// simulated unclean shutdown with a torn tail, the same on every file system:
			// close, put the lock file back, append half a record to the newest segment
			sgs := db.VerifSegments()
			if err := db.Close(); err != nil {
				rec("close %s", errStr(err))
			}
			newest := sgs[len(sgs)-1].Name
			garbage := []byte{3, 0, 40, 0, 0, 0, 'a', 'b', 'c', 1, 2, 3, 4, 5}
			if f, err := fsys.OpenFile(filepath.Join(dir, newest), os.O_RDWR, 0640); err == nil {
				st, _ := f.Stat()
				f.WriteAt(garbage, st.Size())
				f.Close()
			}
			if f, err := fsys.OpenFile(filepath.Join(dir, "lock"), os.O_CREATE|os.O_RDWR, 0640); err == nil {
				f.Close()
			}
			db, e = pogreb.Open(dir, o)
			if e != nil {
				return true
			}
			reseeded = true
			rec("recovered %s", observe(db, c.Pool))
		}
		return false
	}
	for _, op := range c.Ops {
		if step(op) || e != nil {
			return trace, "", e
		}
	}
	rec("final %s", observe(db, c.Pool))
	var parts []string
	for _, s := range db.VerifSegments() {
		f, err := fsys.OpenFile(filepath.Join(dir, s.Name), os.O_RDONLY, 0640)
		if err != nil {
			parts = append(parts, s.Name+":unreadable")
			continue
		}
		st, _ := f.Stat()
		buf := make([]byte, st.Size())
		f.ReadAt(buf, 0)
		f.Close()
		parts = append(parts, fmt.Sprintf("%s:%d:%d", s.Name, len(buf), crc32.ChecksumIEEE(buf)))
	}
	sort.Strings(parts)
	if err := db.Close(); err != nil {
		rec("finalclose %s", errStr(err))
	}
	return trace, strings.Join(parts, ","), nil
}

func (h *harness) runFSDiff(seed uint64, cases, nops int) {
	r := &rng{s: seed*0x9e3779b97f4a7c15 + 171717}
	for i := 0; i < cases; i++ {
		saved := h.prop
		h.prop = "C17"
		c := h.genCase(r, fmt.Sprintf("fsdiff-%d-%d", seed, i), "ops", nops)
		h.prop = saved
		h.emit("case %s", c.Name)
		type res struct {
			trace []string
			segs  string
			err   error
		}
		results := map[string]res{}
		names := []string{"sim", "mem", "os", "mmap"}
		for _, n := range names {
			func() {
				defer func() {
					if e := recover(); e != nil {
						results[n] = res{err: fmt.Errorf("panic: %v", e)}
					}
				}()
				t, s, err := runProgram(c, n, seed)
				results[n] = res{t, s, err}
			}()
		}
		ref := results["sim"]
		checks := 0
		for _, n := range names[1:] {
			x := results[n]
			if (x.err == nil) != (ref.err == nil) {
				h.emit("fsdifffail case=%s program fails on %s only: %v / sim: %v", c.Name, n, x.err, ref.err)
				continue
			}
			if x.err != nil {
				continue
			}
			for j := 0; j < len(ref.trace) && j < len(x.trace); j++ {
				checks++
				if ref.trace[j] != x.trace[j] {
					a, b := ref.trace[j], x.trace[j]
					if len(a) > 120 {
						a = a[:120]
					}
					if len(b) > 120 {
						b = b[:120]
					}
					h.emit("fsdifffail case=%s step %d differs between sim and %s: %q vs %q", c.Name, j, n, a, b)
					break
				}
			}
			if len(ref.trace) != len(x.trace) {
				h.emit("fsdifffail case=%s trace length differs between sim and %s", c.Name, n)
			}
			if ref.segs != x.segs {
				h.emit("fsdifffail case=%s segment files differ between sim and %s: %s vs %s", c.Name, n, ref.segs, x.segs)
			}
		}
		if ref.err != nil {
			h.emit("fsdifffail case=%s program fails: %v", c.Name, ref.err)
		}
		h.emit("fsdiffsum case=%s checks=%d", c.Name, checks)
		h.emit("end")
		// the same program also goes through the model
		c2 := *c
		c2.Name = c.Name + "-model"
		var ops []Op
		for _, o := range c.Ops {
			switch o.Kind {
			case "scan", "backup", "failopen":
			default:
				ops = append(ops, o)
			}
		}
		c2.Ops = ops
		h.runCase(&c2, "ops", r)
	}
}
