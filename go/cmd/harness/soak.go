//go:build verif

package main

import (
	"fmt"
	"os"
	"strings"

	"github.com/akrylysov/pogreb"
	"github.com/akrylysov/pogreb/fs"
)

// soak stream (C15, thorough tier): a steady overwrite/delete workload with periodic compaction and
// restarts on the real file systems; directory size, file count, open descriptors and memory mappings
// must stay bounded by the live data instead of growing with history.

func countLines(path string, contains string) int {
	b, err := os.ReadFile(path)
	if err != nil {
		return -1
	}
	n := 0
	for _, l := range strings.Split(string(b), "\n") {
		if contains == "" || strings.Contains(l, contains) {
			n++
		}
	}
	return n
}

func countFDs() int {
	ents, err := os.ReadDir("/proc/self/fd")
	if err != nil {
		return -1
	}
	return len(ents)
}

func (h *harness) runSoak(seed uint64, rounds int) {
	for _, fsName := range []string{"os", "mmap"} {
		tmp, _ := os.MkdirTemp("", "soak")
		dir := tmp + "/db"
		var fsys fs.FileSystem = fs.OS
		if fsName == "mmap" {
			fsys = fs.OSMMap
		}
		h.emit("case soak-%s", fsName)
		r := &rng{s: seed + 17}
		o := &pogreb.Options{FileSystem: fsys}
		pogreb.VerifSetThresholds(o, 8192, 1024, 0.25)
		baseFD, baseMaps := countFDs(), countLines("/proc/self/maps", dir)
		db, err := pogreb.Open(dir, o)
		if err != nil {
			h.emit("concfail soak open: %s", errStr(err))
			continue
		}
		type sample struct{ bytes, files, fds, maps, segs int }
		var samples []sample
		nk := 60
		fails := 0
		for round := 0; round < rounds && fails == 0; round++ {
			for i := 0; i < 120; i++ {
				k := []byte(fmt.Sprintf("sk%03d", r.intn(nk)))
				if r.chance(25) {
					_ = db.Delete(k)
				} else {
					_ = db.Put(k, patternBytes(40+r.intn(120), byte(r.next())))
				}
			}
			if _, err := db.Compact(); err != nil {
				h.emit("concfail soak fs=%s round %d: Compact: %s", fsName, round, errStr(err))
				fails++
			}
			if round%5 == 4 {
				if err := db.Close(); err != nil {
					h.emit("concfail soak fs=%s round %d: Close: %s", fsName, round, errStr(err))
					fails++
					break
				}
				db, err = pogreb.Open(dir, o)
				if err != nil {
					h.emit("concfail soak fs=%s round %d: reopen: %s", fsName, round, errStr(err))
					fails++
					break
				}
			}
			ents, _ := os.ReadDir(dir)
			total := 0
			live := map[string]bool{"lock": true, "main.pix": true, "overflow.pix": true, "db.pmt": true, "index.pmt": true}
			segs := db.VerifSegments()
			for _, s := range segs {
				live[s.Name] = true
				live[s.Name+".pmt"] = true
			}
			for _, e := range ents {
				if fi, err := e.Info(); err == nil {
					total += int(fi.Size())
				}
				if !live[e.Name()] {
					h.emit("concfail soak fs=%s round %d: file %s belongs to no live segment, index, metadata or lock", fsName, round, e.Name())
					fails++
				}
			}
			samples = append(samples, sample{total, len(ents), countFDs() - baseFD, countLines("/proc/self/maps", dir) - baseMaps, len(segs)})
		}
		if fails == 0 && len(samples) >= 20 {
			half := len(samples) / 2
			maxOf := func(ss []sample, f func(sample) int) int {
				m := 0
				for _, s := range ss {
					if f(s) > m {
						m = f(s)
					}
				}
				return m
			}
			for _, q := range []struct {
				name string
				f    func(sample) int
			}{{"directory bytes", func(s sample) int { return s.bytes }}, {"file count", func(s sample) int { return s.files }},
				{"open descriptors", func(s sample) int { return s.fds }}, {"memory mappings", func(s sample) int { return s.maps }},
				{"segments", func(s sample) int { return s.segs }}} {
				a, b := maxOf(samples[:half], q.f), maxOf(samples[half:], q.f)
				if b > a+a/2+4 {
					h.emit("concfail soak fs=%s %s grow with history: max %d in the first half of the run, %d in the second", fsName, q.name, a, b)
				}
			}
			last := samples[len(samples)-1]
			// descriptors: index (2) + one per segment (+ lock); mappings likewise on mmap
			if last.fds > last.segs+4 {
				h.emit("concfail soak fs=%s %d open descriptors for %d segments", fsName, last.fds, last.segs)
			}
			h.emit("concsum case=soak-%s checks=%d lastbytes=%d lastfiles=%d lastfds=%d lastmaps=%d lastsegs=%d", fsName, len(samples), last.bytes, last.files, last.fds, last.maps, last.segs)
		}
		if db != nil {
			db.Close()
		}
		h.emit("end")
		os.RemoveAll(tmp)
	}
}
