//go:build verif

package main

import (
	"bufio"
	"encoding/binary"
	"fmt"
	"log"
	"os"
	"path/filepath"
	"sort"
	"strconv"
	"strings"

	"github.com/akrylysov/pogreb"
	"github.com/akrylysov/pogreb/fs"
	"verif/simfs"
)

// Op is one line of a case.
type Op struct {
	Kind string // put del get has count items sync compact compactx reopen crashreopen dump getappend
	K, V []byte
	Sub  []SubOp // compactx: user operations placed at yield points
}

// SubOp is a user operation run at the At-th yield point of a compaction.
type SubOp struct {
	At   int
	Kind string
	K, V []byte
}

type Case struct {
	Name string
	Cfg  Cfg
	Ops  []Op
	Pool [][]byte
}

// ---- case (de)serialisation -------------------------------------------------

func valSpec(v []byte) string { return hx(v) }

func (c *Case) write(w *bufio.Writer) {
	fmt.Fprintf(w, "case %s\n", c.Name)
	fmt.Fprintf(w, "cfg %s hashseed=%d\n", c.Cfg.line(), c.Cfg.HashSeed)
	for _, o := range c.Ops {
		switch o.Kind {
		case "put", "crashtorn", "crashtornhdr":
			fmt.Fprintf(w, "%s %s %s\n", o.Kind, hx(o.K), valSpec(o.V))
		case "growchain", "thinchain", "pushsplit", "killsegment", "rewritechain", "fillseg", "drainchain":
			fmt.Fprintf(w, "%s %d\n", o.Kind, len(o.V))
		case "del", "get", "has":
			fmt.Fprintf(w, "%s %s\n", o.Kind, hx(o.K))
		case "getappend":
			fmt.Fprintf(w, "getappend %s %s\n", hx(o.K), hx(o.V))
		case "compactx", "scan", "backup":
			var parts []string
			for _, s := range o.Sub {
				if s.Kind == "put" {
					parts = append(parts, fmt.Sprintf("%d:put:%s:%s", s.At, hx(s.K), hx(s.V)))
				} else if isMacro(s.Kind) {
					parts = append(parts, fmt.Sprintf("%d:%s:%s", s.At, s.Kind, hx(s.V)))
				} else {
					parts = append(parts, fmt.Sprintf("%d:%s:%s", s.At, s.Kind, hx(s.K)))
				}
			}
			fmt.Fprintf(w, "%s %s\n", o.Kind, strings.Join(parts, ";"))
		default:
			fmt.Fprintf(w, "%s\n", o.Kind)
		}
	}
	fmt.Fprintf(w, "end\n")
}

func parseCfg(fields []string) Cfg {
	c := Cfg{FSName: "sim"}
	for _, f := range fields {
		kv := strings.SplitN(f, "=", 2)
		if len(kv) != 2 {
			continue
		}
		switch kv[0] {
		case "maxseg":
			n, _ := strconv.ParseUint(kv[1], 10, 32)
			c.MaxSeg = uint32(n)
		case "minseg":
			n, _ := strconv.ParseUint(kv[1], 10, 32)
			c.MinSeg = uint32(n)
		case "frag":
			f, _ := strconv.ParseFloat(kv[1], 32)
			c.Frag = float32(f)
			c.FragStr = kv[1]
		case "sync":
			c.SyncMode = kv[1] == "1"
		case "fs":
			c.FSName = kv[1]
		case "hashseed":
			n, _ := strconv.ParseUint(kv[1], 10, 32)
			c.HashSeed = uint32(n)
		}
	}
	return c
}

func readCases(path string) []*Case {
	f, err := os.Open(path)
	if err != nil {
		log.Fatal(err)
	}
	defer f.Close()
	var out []*Case
	var cur *Case
	sc := bufio.NewScanner(f)
	sc.Buffer(make([]byte, 1<<20), 1<<28)
	for sc.Scan() {
		line := strings.TrimSpace(sc.Text())
		if line == "" || strings.HasPrefix(line, "#") {
			continue
		}
		fs := strings.Fields(line)
		switch fs[0] {
		case "case":
			cur = &Case{Name: fs[1]}
		case "cfg":
			cur.Cfg = parseCfg(fs[1:])
		case "end":
			seen := map[string]bool{}
			for _, o := range cur.Ops {
				if o.K != nil && !seen[string(o.K)] {
					seen[string(o.K)] = true
					cur.Pool = append(cur.Pool, o.K)
				}
				for _, s := range o.Sub {
					if !seen[string(s.K)] {
						seen[string(s.K)] = true
						cur.Pool = append(cur.Pool, s.K)
					}
				}
			}
			out = append(out, cur)
			cur = nil
		case "put", "getappend", "crashtorn", "crashtornhdr":
			cur.Ops = append(cur.Ops, Op{Kind: fs[0], K: unhx(fs[1]), V: unhx(fs[2])})
		case "growchain", "thinchain", "pushsplit", "killsegment", "rewritechain", "fillseg", "drainchain":
			n := 0
			if len(fs) > 1 {
				n, _ = strconv.Atoi(fs[1])
			}
			cur.Ops = append(cur.Ops, Op{Kind: fs[0], V: make([]byte, n)})
		case "del", "get", "has":
			cur.Ops = append(cur.Ops, Op{Kind: fs[0], K: unhx(fs[1])})
		case "compactx", "scan", "backup":
			o := Op{Kind: fs[0]}
			if len(fs) > 1 {
				for _, p := range strings.Split(fs[1], ";") {
					q := strings.Split(p, ":")
					at, _ := strconv.Atoi(q[0])
					s := SubOp{At: at, Kind: q[1], K: unhx(q[2])}
					if q[1] == "put" {
						s.V = unhx(q[3])
					}
					if isMacro(q[1]) {
						s.K, s.V = nil, unhx(q[2])
					}
					o.Sub = append(o.Sub, s)
				}
			}
			cur.Ops = append(cur.Ops, o)
		default:
			cur.Ops = append(cur.Ops, Op{Kind: fs[0]})
		}
	}
	return out
}

// ---- generation -------------------------------------------------------------

func patternBytes(n int, tag byte) []byte {
	b := make([]byte, n)
	for i := range b {
		b[i] = tag + byte(i*7)
	}
	return b
}

// keyPool builds keys for a hash seed: a group colliding in the low bits (one long chain),
// a group with identical full 32-bit hashes when cheap to find, and spread keys.
func keyPool(r *rng, seed uint32, n int, flavour int) [][]byte {
	var pool [][]byte
	seen := map[string]bool{}
	add := func(k []byte) {
		if !seen[string(k)] {
			seen[string(k)] = true
			pool = append(pool, k)
		}
	}
	mk := func(i int) []byte {
		l := 1 + r.intn(12)
		k := []byte(fmt.Sprintf("%x", i*2654435761+r.intn(1<<20)))
		for len(k) < l {
			k = append(k, byte('a'+r.intn(26)))
		}
		return k[:l+0]
	}
	switch flavour {
	case 0: // spread
		for i := 0; len(pool) < n; i++ {
			add(mk(i))
		}
	case 1: // one chain: low `bits` bits equal
		bits := uint(6 + r.intn(8))
		mask := uint32(1)<<bits - 1
		want := uint32(r.next()) & mask
		for i := 0; len(pool) < n && i < 4000000; i++ {
			k := []byte(fmt.Sprintf("c%x", i))
			if murmur32(k, seed)&mask == want {
				add(k)
			}
		}
	case 2: // two chains that become one family after splits + some spread
		mask := uint32(7)
		for i := 0; len(pool) < n*3/4 && i < 4000000; i++ {
			k := []byte(fmt.Sprintf("d%x", i))
			if murmur32(k, seed)&mask == 5 {
				add(k)
			}
		}
		for i := 0; len(pool) < n; i++ {
			add(mk(i))
		}
	}
	// length-boundary keys
	if r.chance(30) {
		add([]byte{})
	}
	if r.chance(10) {
		add(patternBytes(300+r.intn(300), 'K'))
	}
	return pool
}

func (h *harness) genCase(r *rng, name, stream string, nops int) *Case {
	c := &Case{Name: name}
	maxsegs := []uint32{1024, 1024, 2048, 4096, 65536}
	c.Cfg.MaxSeg = maxsegs[r.intn(len(maxsegs))]
	c.Cfg.MinSeg = []uint32{1, 600, 1024}[r.intn(3)]
	fr := []string{"0.01", "0.3", "0.5"}[r.intn(3)]
	c.Cfg.FragStr = fr
	f, _ := strconv.ParseFloat(fr, 32)
	c.Cfg.Frag = float32(f)
	c.Cfg.SyncMode = r.chance(30)
	c.Cfg.HashSeed = uint32(r.next())
	if r.chance(4) {
		// boundary seeds: 0 is a legal seed, not "unset"
		c.Cfg.HashSeed = []uint32{0, 0, 1, 0xffffffff}[r.intn(4)]
	}
	c.Cfg.FSName = "sim"
	if h.prop == "C06" {
		// rollover and compaction under both sync modes
		c.Cfg.MaxSeg = []uint32{1024, 1024, 2048}[r.intn(3)]
		c.Cfg.MinSeg = []uint32{1, 600}[r.intn(2)]
		c.Cfg.FragStr = []string{"0.01", "0.3"}[r.intn(2)]
		f, _ := strconv.ParseFloat(c.Cfg.FragStr, 32)
		c.Cfg.Frag = float32(f)
		c.Cfg.SyncMode = r.chance(50)
	}
	if h.prop == "C05" || h.prop == "C15" || h.prop == "C07" || h.prop == "C10" {
		// frequent compaction: small segments, low thresholds
		c.Cfg.MaxSeg = []uint32{1024, 1024, 2048}[r.intn(3)]
		c.Cfg.MinSeg = []uint32{1, 600}[r.intn(2)]
		c.Cfg.FragStr = []string{"0.01", "0.01", "0.3"}[r.intn(3)]
		f, _ := strconv.ParseFloat(c.Cfg.FragStr, 32)
		c.Cfg.Frag = float32(f)
	}
	flavour := r.pick(40, 40, 20)
	npool := []int{6, 20, 60, 150}[r.pick(20, 30, 30, 20)]
	if flavour == 1 && npool < 40 && r.chance(60) {
		npool = 40 + r.intn(60)
	}
	if h.prop == "C06" && r.chance(40) {
		// few keys: segments whose records are all dead when compaction gets to them
		npool = 2 + r.intn(5)
		flavour = 0
	}
	if (h.prop == "C15" || h.prop == "C10") && r.chance(50) {
		// few keys, overwritten and deleted over and over: segments whose records are all dead
		npool = 2 + r.intn(5)
		flavour = 0
	}
	small := false
	if h.prop == "C01" || h.prop == "C11" {
		// index emphasis: long chains (overflow buckets, holes), many splits, tiny values
		flavour = r.pick(30, 50, 20)
		npool = []int{40, 90, 200, 400}[r.pick(25, 35, 25, 15)]
		if npool > nops {
			npool = nops
		}
		small = true
		c.Cfg.MaxSeg = []uint32{4096, 65536, 65536}[r.intn(3)]
	}
	c.Pool = keyPool(r, c.Cfg.HashSeed, npool, flavour)
	if h.prop == "C16" {
		// size limits: keys at and beyond 65535 bytes (incl. lengths that alias a stored key's length
		// under uint16 truncation), values around sector / buffer boundaries
		c.Cfg.MaxSeg = 1 << 20
		if r.chance(35) {
			// records that exceed the whole capacity of a segment
			c.Cfg.MaxSeg = []uint32{1024, 4096, 66000}[r.intn(3)]
			h.stat("gen.c16.smallseg")
		}
		c.Pool = nil
		base := patternBytes(70000, 'q')
		for _, n := range []int{0, 1, 2, 255, 256, 4095, 65534, 65535} {
			c.Pool = append(c.Pool, append([]byte(nil), base[:n]...))
		}
		for _, n := range []int{65536, 65537, 65538, 65536 + 255, 65536 + 4095, 69999} {
			c.Pool = append(c.Pool, append([]byte(nil), base[:n]...))
		}
		for i := 0; i < 6; i++ {
			c.Pool = append(c.Pool, []byte(fmt.Sprintf("s%d", i)))
		}
		c16vals := []int{0, 0, 1, 2, 490, 500, 502, 511, 512, 513, 1000, 4070, 4086, 4096, 4097, 10000, 65535, 65536, 70001, 140000}
		keyf := func() []byte { return c.Pool[r.intn(len(c.Pool))] }
		for i := 0; i < nops; i++ {
			switch r.pick(40, 12, 20, 8, 3, 3, 6, 5, 3) {
			case 0:
				c.Ops = append(c.Ops, Op{Kind: "put", K: keyf(), V: patternBytes(c16vals[r.intn(len(c16vals))], byte(r.next()))})
			case 1:
				c.Ops = append(c.Ops, Op{Kind: "del", K: keyf()})
			case 2:
				c.Ops = append(c.Ops, Op{Kind: "get", K: keyf()})
			case 3:
				c.Ops = append(c.Ops, Op{Kind: "has", K: keyf()})
			case 4:
				c.Ops = append(c.Ops, Op{Kind: "count"})
			case 5:
				c.Ops = append(c.Ops, Op{Kind: "items"})
			case 6:
				c.Ops = append(c.Ops, Op{Kind: "reopen"})
			case 7:
				c.Ops = append(c.Ops, Op{Kind: "crashreopen"})
			case 8:
				c.Ops = append(c.Ops, Op{Kind: "compact"})
			}
		}
		return c
	}
	if h.prop == "C04" && r.chance(35) {
		// a put in an old, barely fragmented segment; its delete in the newest segment; a torn tail there;
		// recovery (metadata rebuilt); overwrites of OTHER keys that make only the newest segments eligible;
		// compaction; second crash: the deleted key must not come back
		c.Cfg.MaxSeg = 1024
		c.Cfg.MinSeg = 1
		c.Cfg.FragStr = "0.5"
		c.Cfg.Frag = 0.5
		c.Cfg.SyncMode = false
		c.Pool = nil
		for i := 0; i < 14; i++ {
			c.Pool = append(c.Pool, []byte(fmt.Sprintf("q%02d", i)))
		}
		nfill := 6 + r.intn(5)
		for i := 0; i < nfill; i++ {
			c.Ops = append(c.Ops, Op{Kind: "put", K: c.Pool[i], V: patternBytes(50+r.intn(30), byte(i))})
		}
		c.Ops = append(c.Ops, Op{Kind: "del", K: c.Pool[r.intn(3)]})
		if r.chance(40) {
			c.Ops = append(c.Ops, Op{Kind: "del", K: c.Pool[r.intn(3)]})
		}
		kind := "crashtorn"
		if r.chance(30) {
			kind = "crashtornhdr"
		}
		c.Ops = append(c.Ops, Op{Kind: kind, K: c.Pool[13], V: patternBytes(300+r.intn(150), 'T')})
		for i, n := 0, 8+r.intn(16); i < n; i++ {
			c.Ops = append(c.Ops, Op{Kind: "put", K: c.Pool[11+r.intn(2)], V: patternBytes(30+r.intn(50), byte(r.next()))})
			if r.chance(12) {
				c.Ops = append(c.Ops, Op{Kind: "compact"})
			}
		}
		c.Ops = append(c.Ops, Op{Kind: "compact"}, Op{Kind: "crashreopen"}, Op{Kind: "items"})
		for i, n := 0, r.intn(10); i < n; i++ {
			c.Ops = append(c.Ops, Op{Kind: "put", K: c.Pool[r.intn(14)], V: patternBytes(r.intn(60), byte(r.next()))})
		}
		c.Ops = append(c.Ops, Op{Kind: "compact"}, Op{Kind: "crashreopen"}, Op{Kind: "items"})
		return c
	}
	if stream == "ops" && (h.prop == "C01" || h.prop == "C11" || h.prop == "C02" || h.prop == "C05" || h.prop == "C15" || h.prop == "C12") && (r.chance(20) || os.Getenv("VERIF_ONLY_SHAPE") != "") {
		// shape exploration: adaptive macro operations steer the real index / log into rare states
		h.stat("gen.shape")
		c.Cfg.MaxSeg = []uint32{4096, 65536}[r.intn(2)]
		if h.prop == "C05" || h.prop == "C15" {
			c.Cfg.MaxSeg = []uint32{1024, 2048, 4096}[r.intn(3)]
		}
		c.Pool = keyPool(r, c.Cfg.HashSeed, 20+r.intn(60), 0)
		for _, k := range c.Pool {
			c.Ops = append(c.Ops, Op{Kind: "put", K: k, V: patternBytes(r.intn(4), byte(r.next()))})
		}
		mac := func() Op {
			switch r.pick(26, 12, 10, 22, 8, 10, 12, 6) {
			case 7:
				return Op{Kind: "drainchain"}
			case 0:
				return Op{Kind: "growchain", V: make([]byte, 10+r.intn(150))}
			case 1:
				return Op{Kind: "thinchain"}
			case 2:
				return Op{Kind: "emptybucket"}
			case 3:
				return Op{Kind: "pushsplit", V: make([]byte, 20+r.intn(250))}
			case 4:
				return Op{Kind: "killsegment"}
			case 5:
				return Op{Kind: "rewritechain"}
			}
			return Op{Kind: "compact"}
		}
		for i, n := 0, 5+r.intn(10); i < n; i++ {
			switch r.pick(60, 12, 8, 5, 5, 10) {
			case 0:
				c.Ops = append(c.Ops, mac())
			case 1:
				// a scan paused at random positions while the shape changes underneath it
				o := Op{Kind: "scan"}
				for j, m := 0, 1+r.intn(3); j < m; j++ {
					mo := mac()
					if mo.Kind == "emptybucket" {
						mo.Kind = "thinchain"
					}
					at := r.intn(200)
					if r.chance(50) {
						at = onLongestChain
					}
					o.Sub = append(o.Sub, SubOp{At: at, Kind: mo.Kind, V: mo.V})
				}
				sort.SliceStable(o.Sub, func(a, b int) bool { return o.Sub[a].At < o.Sub[b].At })
				c.Ops = append(c.Ops, o)
			case 2:
				c.Ops = append(c.Ops, Op{Kind: "reopen"})
			case 3:
				c.Ops = append(c.Ops, Op{Kind: "crashreopen"})
			case 4:
				c.Ops = append(c.Ops, Op{Kind: "backup"})
			case 5:
				c.Ops = append(c.Ops, Op{Kind: "items"})
			}
			if r.chance(40) {
				c.Ops = append(c.Ops, Op{Kind: "dump"})
			}
		}
		c.Ops = append(c.Ops, Op{Kind: "items"}, Op{Kind: "dump"}, Op{Kind: "reopen"}, Op{Kind: "items"})
		return c
	}
	if stream == "ops" && (h.prop == "C01" || h.prop == "C02" || h.prop == "C11") && r.chance(8) {
		// a long chain at the end of the overflow file is emptied and split away (all of its overflow
		// buckets go to the free list, at the END of the file), the database is restarted, and later
		// chains need more overflow buckets than the free list holds
		h.stat("gen.freetail")
		c.Cfg.MaxSeg = 65536
		c.Pool = keyPool(r, c.Cfg.HashSeed, 20+r.intn(30), 0)
		for _, k := range c.Pool {
			c.Ops = append(c.Ops, Op{Kind: "put", K: k, V: patternBytes(r.intn(4), byte(r.next()))})
		}
		c.Ops = append(c.Ops, Op{Kind: "growchain", V: make([]byte, 260+r.intn(120))}, Op{Kind: "dump"})
		if r.chance(50) {
			c.Ops = append(c.Ops, Op{Kind: "reopen"})
		}
		c.Ops = append(c.Ops, Op{Kind: "drainchain"}, Op{Kind: "dump"}, Op{Kind: "reopen"}, Op{Kind: "dump"})
		c.Ops = append(c.Ops, Op{Kind: "growchain", V: make([]byte, 300+r.intn(200))}, Op{Kind: "items"}, Op{Kind: "dump"},
			Op{Kind: "reopen"}, Op{Kind: "items"}, Op{Kind: "dump"})
		if r.chance(50) {
			c.Ops = append(c.Ops, Op{Kind: "growchain", V: make([]byte, 100+r.intn(200))}, Op{Kind: "items"}, Op{Kind: "dump"})
		}
		return c
	}
	if (h.prop == "C01" || h.prop == "C11") && stream == "ops" && r.chance(30) {
		// a chain of several buckets, one non-tail bucket of it emptied by deletes, then table growth
		// driven by keys of OTHER chains until the split pointer passes it (holes in front of live slots)
		h.stat("gen.emptiedbucket")
		c.Cfg.MaxSeg = 65536
		chain := keyPool(r, c.Cfg.HashSeed, 40+r.intn(70), 1)
		low := murmur32(chain[0], c.Cfg.HashSeed) & 7
		var spread [][]byte
		for _, k := range keyPool(r, c.Cfg.HashSeed, 500, 0) {
			if murmur32(k, c.Cfg.HashSeed)&7 != low || r.chance(5) {
				spread = append(spread, k)
			}
		}
		c.Pool = append(append([][]byte{}, chain...), spread...)
		for i, k := range chain {
			c.Ops = append(c.Ops, Op{Kind: "put", K: k, V: patternBytes(r.intn(4), byte(i))})
		}
		pre := 40 + r.intn(160)
		if pre > len(spread) {
			pre = len(spread)
		}
		for i, k := range spread {
			if i == pre {
				c.Ops = append(c.Ops, Op{Kind: "dump"}, Op{Kind: "emptybucket"})
				if r.chance(25) {
					c.Ops = append(c.Ops, Op{Kind: "emptybucket"})
				}
				c.Ops = append(c.Ops, Op{Kind: "dump"})
			}
			c.Ops = append(c.Ops, Op{Kind: "put", K: k, V: patternBytes(r.intn(3), 1)})
			if i > pre && r.chance(8) {
				c.Ops = append(c.Ops, Op{Kind: "get", K: chain[r.intn(len(chain))]})
			}
			if i > pre && r.chance(4) {
				c.Ops = append(c.Ops, Op{Kind: "dump"})
			}
		}
		c.Ops = append(c.Ops, Op{Kind: "items"}, Op{Kind: "dump"}, Op{Kind: "reopen"}, Op{Kind: "items"})
		return c
	}
	if h.prop == "C11" && stream == "ops" && r.chance(25) {
		// a scan paused inside one very long chain (> 4 overflow buckets) while the table grows: the
		// chain's bucket is split (chain rewritten, its overflow buckets freed) and other full chains
		// take overflow buckets from the free list; keys untouched during the scan must still be returned
		h.stat("gen.scanlongchain")
		c.Cfg.MaxSeg = 65536
		chainA := keyPool(r, c.Cfg.HashSeed, 130+r.intn(100), 1)
		lowA := murmur32(chainA[0], c.Cfg.HashSeed) & 7
		c.Pool = append([][]byte{}, chainA...)
		var chains [][][]byte
		for len(chains) < 8 {
			b := keyPool(r, c.Cfg.HashSeed, 64, 1)
			if murmur32(b[0], c.Cfg.HashSeed)&7 != lowA {
				chains = append(chains, b)
				c.Pool = append(c.Pool, b...)
			}
		}
		var spread [][]byte
		for _, k := range keyPool(r, c.Cfg.HashSeed, 1200, 0) {
			if murmur32(k, c.Cfg.HashSeed)&7 != lowA {
				spread = append(spread, k)
			}
		}
		c.Pool = append(c.Pool, spread...)
		for i, k := range chainA {
			c.Ops = append(c.Ops, Op{Kind: "put", K: k, V: patternBytes(r.intn(3), byte(i))})
		}
		for _, b := range chains {
			for i := 0; i < 31; i++ {
				c.Ops = append(c.Ops, Op{Kind: "put", K: b[i], V: patternBytes(r.intn(3), 2)})
			}
		}
		pre := r.intn(200)
		for i := 0; i < pre; i++ {
			c.Ops = append(c.Ops, Op{Kind: "put", K: spread[i], V: patternBytes(r.intn(3), 1)})
		}
		c.Ops = append(c.Ops, Op{Kind: "dump"})
		o := Op{Kind: "scan"}
		at := onChainKey
		if r.chance(20) {
			at = 1 + r.intn(len(chainA)+pre)
		}
		si := pre
		for j, n := 0, 50+r.intn(650); j < n && si < len(spread); j++ {
			o.Sub = append(o.Sub, SubOp{At: at, Kind: "put", K: spread[si], V: patternBytes(r.intn(3), 3)})
			si++
		}
		for i := 31; i < 33+r.intn(31); i++ {
			for _, b := range chains {
				o.Sub = append(o.Sub, SubOp{At: at, Kind: "put", K: b[i], V: patternBytes(r.intn(3), 4)})
			}
		}
		c.Ops = append(c.Ops, o, Op{Kind: "dump"}, Op{Kind: "items"})
		return c
	}
	if stream == "ops" && (h.prop == "C10" || h.prop == "C15") && r.chance(20) {
		// every record dies, compaction removes every segment (the handle keeps pointing at a removed
		// one), then Close/Open and operations on the closed handle
		h.stat("gen.allsegmentsgone")
		c.Cfg.MaxSeg = []uint32{1024, 2048}[r.intn(2)]
		c.Cfg.MinSeg = 1
		c.Cfg.FragStr, c.Cfg.Frag = "0.01", 0.01
		c.Pool = keyPool(r, c.Cfg.HashSeed, 3, 0)
		for round, nr := 0, 1+r.intn(3); round < nr; round++ {
			for i, n := 0, 2+r.intn(8); i < n; i++ {
				c.Ops = append(c.Ops, Op{Kind: "put", K: c.Pool[r.intn(len(c.Pool))], V: patternBytes(20+r.intn(150), byte(r.next()))})
			}
			for _, k := range c.Pool {
				c.Ops = append(c.Ops, Op{Kind: "del", K: k})
			}
			c.Ops = append(c.Ops, Op{Kind: "compact"})
			switch r.intn(4) {
			case 0:
				c.Ops = append(c.Ops, Op{Kind: "sync"})
			case 1:
				c.Ops = append(c.Ops, Op{Kind: "backup"})
			}
			c.Ops = append(c.Ops, Op{Kind: "reopen"}, Op{Kind: "items"})
		}
		// the last session starts on an empty database (a new hash seed is drawn) and leaves data behind
		for i, n := 0, 3+r.intn(5); i < n; i++ {
			c.Ops = append(c.Ops, Op{Kind: "put", K: c.Pool[r.intn(len(c.Pool))], V: patternBytes(5+r.intn(40), byte(r.next()))})
		}
		c.Ops = append(c.Ops, Op{Kind: "reopen"}, Op{Kind: "items"}, Op{Kind: "get", K: c.Pool[0]}, Op{Kind: "reopen"}, Op{Kind: "items"})
		return c
	}
	if stream == "ploss" && (h.prop == "C06" || h.prop == "C09") && r.chance(15) {
		// Close wins the race with a compaction that has just picked (and sealed) the CURRENT segment
		// while it holds records written since the last Sync: Close returning nil is a durable checkpoint
		h.stat("gen.closeincompact")
		c.Cfg.MaxSeg = []uint32{2048, 4096}[r.intn(2)]
		c.Cfg.MinSeg = 1
		c.Cfg.FragStr, c.Cfg.Frag = "0.01", 0.01
		c.Cfg.SyncMode = false
		c.Pool = keyPool(r, c.Cfg.HashSeed, 5, 0)
		put := func() {
			k := c.Pool[r.intn(len(c.Pool))]
			c.Ops = append(c.Ops, Op{Kind: "put", K: k, V: patternBytes(5+r.intn(60), byte(r.next()))})
		}
		for round, nr := 0, 1+r.intn(3); round < nr; round++ {
			for i, n := 0, 3+r.intn(6); i < n; i++ {
				put()
			}
			if r.chance(50) {
				c.Ops = append(c.Ops, Op{Kind: "sync"})
			}
			for i, n := 0, 1+r.intn(6); i < n; i++ {
				put()
				if r.chance(20) {
					c.Ops = append(c.Ops, Op{Kind: "del", K: c.Pool[r.intn(len(c.Pool))]})
				}
			}
			o := Op{Kind: "compactx"}
			if r.chance(30) {
				o.Sub = append(o.Sub, SubOp{At: 0, Kind: "put", K: c.Pool[r.intn(len(c.Pool))], V: patternBytes(9, 'w')})
			}
			o.Sub = append(o.Sub, SubOp{At: r.intn(3), Kind: "close"})
			c.Ops = append(c.Ops, o)
		}
		return c
	}
	if stream == "ploss" && (h.prop == "C06" || h.prop == "C09") && r.chance(20) {
		// "... or an earlier recovery": a failure that tears the last record (also inside its 6-byte
		// header), recovery, then writes that ARE synced, then more power failures (after every op)
		h.stat("gen.plossafterrecovery")
		c.Cfg.MaxSeg = []uint32{1024, 2048, 4096}[r.intn(3)]
		c.Cfg.MinSeg = 1
		c.Cfg.FragStr, c.Cfg.Frag = "0.3", 0.3
		c.Cfg.SyncMode = r.chance(40)
		c.Pool = keyPool(r, c.Cfg.HashSeed, 10, 0)
		put := func() {
			k := c.Pool[r.intn(len(c.Pool))]
			c.Ops = append(c.Ops, Op{Kind: "put", K: k, V: patternBytes(5+r.intn(120), byte(r.next()))})
		}
		for i, n := 0, 3+r.intn(8); i < n; i++ {
			put()
		}
		c.Ops = append(c.Ops, Op{Kind: "sync"})
		for round, nr := 0, 1+r.intn(2); round < nr; round++ {
			kind := "crashtornhdr"
			if r.chance(35) {
				kind = "crashtorn"
			}
			c.Ops = append(c.Ops, Op{Kind: kind, K: c.Pool[r.intn(len(c.Pool))], V: patternBytes(200+r.intn(400), 'T')})
			for i, n := 0, 1+r.intn(5); i < n; i++ {
				put()
				if r.chance(25) {
					c.Ops = append(c.Ops, Op{Kind: "del", K: c.Pool[r.intn(len(c.Pool))]})
				}
			}
			c.Ops = append(c.Ops, Op{Kind: "sync"})
			for i, n := 0, r.intn(4); i < n; i++ {
				put()
			}
			if r.chance(30) {
				c.Ops = append(c.Ops, Op{Kind: "compact"})
			}
			if r.chance(30) {
				c.Ops = append(c.Ops, Op{Kind: "reopen"})
			}
		}
		return c
	}
	if h.prop == "C02" && r.chance(50) {
		// one long chain whose bucket is split (overflow buckets freed), then many short sessions that
		// delete a key elsewhere and add one key to the chain: the key count stays the same while
		// overflow buckets are taken from the free list - the persisted free list must follow
		c.Cfg.MaxSeg = 65536
		chain := keyPool(r, c.Cfg.HashSeed, 125, 1)
		spread := keyPool(r, c.Cfg.HashSeed, 110, 0)
		c.Pool = append(append([][]byte{}, chain...), spread...)
		nfill := 60 + r.intn(32)
		if nfill > len(chain) {
			nfill = len(chain)
		}
		for i := 0; i < nfill; i++ {
			c.Ops = append(c.Ops, Op{Kind: "put", K: chain[i], V: patternBytes(r.intn(4), byte(i))})
		}
		for _, k := range spread {
			c.Ops = append(c.Ops, Op{Kind: "put", K: k, V: patternBytes(r.intn(3), 1)})
		}
		c.Ops = append(c.Ops, Op{Kind: "reopen"})
		next, sp := nfill, 0
		for next < len(chain) && sp < len(spread) {
			n := 1
			if r.chance(25) {
				n = 2
			}
			for j := 0; j < n && next < len(chain) && sp < len(spread); j++ {
				c.Ops = append(c.Ops, Op{Kind: "del", K: spread[sp]}, Op{Kind: "put", K: chain[next], V: patternBytes(r.intn(4), byte(next))})
				sp++
				next++
			}
			if r.chance(20) {
				c.Ops = append(c.Ops, Op{Kind: "put", K: chain[r.intn(next)], V: patternBytes(r.intn(4), 7)})
			}
			c.Ops = append(c.Ops, Op{Kind: "reopen"}, Op{Kind: "dump"})
		}
		return c
	}
	// Most cases keep every record within an empty segment; some (since fix F13) also write records
	// that exceed a whole segment: they seal the empty current segment and get a segment of their own.
	room := int(c.Cfg.MaxSeg) - 512 - 10
	oversize := c.Cfg.MaxSeg <= 4096 && r.chance(12)
	if oversize {
		room += 400
		h.stat("gen.oversize")
	}
	var pool [][]byte
	maxKey := 0
	for _, k := range c.Pool {
		if len(k) > room-100 {
			continue
		}
		pool = append(pool, k)
		if len(k) > maxKey {
			maxKey = len(k)
		}
	}
	c.Pool = pool
	maxVal := room - maxKey
	if maxVal > 3000 {
		maxVal = 3000
	}
	val := func(k []byte) []byte {
		var n int
		if small {
			return patternBytes(r.intn(4), byte(r.next()))
		}
		switch r.pick(15, 35, 30, 15, 5) {
		case 0:
			n = 0
		case 1:
			n = 1 + r.intn(8)
		case 2:
			n = 8 + r.intn(60)
		case 3:
			n = 100 + r.intn(500)
		case 4:
			n = r.intn(maxVal + 1)
		}
		if (h.prop == "C18" || h.prop == "C16" || h.prop == "C03") && r.chance(2) {
			// large values (separate code paths for big records: >= 64 KiB)
			h.stat("gen.largevalue")
			return patternBytes(65536+r.intn(70000), byte(r.next()))
		}
		if oversize && r.chance(6) {
			// just beyond what an empty segment holds
			n = room - 400 - len(k) + 1 + r.intn(300)
			h.stat("gen.oversize.rec")
		}
		if n > maxVal {
			n = maxVal
		}
		if n+len(k) > maxVal {
			n = 0
		}
		return patternBytes(n, byte(r.next()))
	}
	key := func() []byte { return c.Pool[r.intn(len(c.Pool))] }
	// weights per stream
	wPut, wDel, wGet, wHas, wCount, wItems, wSync, wCompact, wReopen, wCrash, wDump, wGA := 44, 14, 12, 4, 2, 2, 3, 4, 2, 1, 1, 2
	switch stream {
	case "crash":
		wGet, wHas, wCount, wItems, wDump, wGA = 2, 1, 0, 0, 0, 0
		wCompact, wReopen, wCrash = 6, 3, 3
	case "ploss":
		wGet, wHas, wCount, wItems, wDump, wGA = 1, 0, 0, 0, 0, 0
		wSync, wCompact, wReopen, wCrash = 8, 6, 3, 2
	}
	switch h.prop {
	case "C11", "C12", "C13":
		wDump = 12
	}
	switch h.prop {
	case "C04":
		wCrash, wReopen, wCompact = 9, 3, 5
	case "C05", "C07":
		wCompact, wCrash, wReopen = 14, 2, 2
	case "C06":
		wCompact, wSync, wCrash, wReopen = 12, 8, 3, 2
	case "C10":
		wReopen, wCompact = 10, 10
	case "C09":
		wReopen, wCrash, wSync = 12, 3, 4
	case "C02":
		wReopen, wCrash, wCompact = 10, 1, 6
	case "C15":
		wCompact, wReopen, wCrash = 12, 6, 1
	}
	if h.prop == "C17" && r.chance(60) {
		// truncation by recovery, then growth well beyond the truncated size in the same session
		c.Cfg.MaxSeg = 65536
		for i, n := 0, 2+r.intn(8); i < n; i++ {
			k := key()
			c.Ops = append(c.Ops, Op{Kind: "put", K: k, V: patternBytes(r.intn(30), byte(i))})
		}
		c.Ops = append(c.Ops, Op{Kind: "crashreopen"})
		bk := key()
		c.Ops = append(c.Ops, Op{Kind: "put", K: bk, V: patternBytes(1500+r.intn(1500), 'G')}, Op{Kind: "get", K: bk}, Op{Kind: "get", K: key()})
	}
	if stream != "ploss" && r.chance(25) {
		// Open followed by Close with no writes at all
		c.Ops = append(c.Ops, Op{Kind: "reopen"})
	}
	if h.prop == "C15" || h.prop == "C10" {
		wDel = 30
	}
	// phase: fill first so that splits/overflow/rollover happen
	fill := nops / 3
	for i := 0; i < nops; i++ {
		if i < fill && r.chance(80) {
			k := key()
			c.Ops = append(c.Ops, Op{Kind: "put", K: k, V: val(k)})
			continue
		}
		if c.Cfg.MaxSeg <= 4096 && r.chance(3) {
			// segment-shape macros: a record ending exactly at (or one byte around) the segment limit;
			// a sealed segment with no live record left
			if r.chance(70) {
				c.Ops = append(c.Ops, Op{Kind: "fillseg", V: make([]byte, r.intn(3))})
			} else {
				c.Ops = append(c.Ops, Op{Kind: "killsegment"})
			}
			continue
		}
		switch r.pick(wPut, wDel, wGet, wHas, wCount, wItems, wSync, wCompact, wReopen, wCrash, wDump, wGA) {
		case 0:
			k := key()
			c.Ops = append(c.Ops, Op{Kind: "put", K: k, V: val(k)})
		case 1:
			c.Ops = append(c.Ops, Op{Kind: "del", K: key()})
		case 2:
			c.Ops = append(c.Ops, Op{Kind: "get", K: key()})
		case 3:
			c.Ops = append(c.Ops, Op{Kind: "has", K: key()})
		case 4:
			c.Ops = append(c.Ops, Op{Kind: "count"})
		case 5:
			c.Ops = append(c.Ops, Op{Kind: "items"})
		case 6:
			c.Ops = append(c.Ops, Op{Kind: "sync"})
		case 7:
			if stream != "ops" && r.chance(60) {
				o := Op{Kind: "compactx"}
				for j, n := 0, r.intn(4); j < n; j++ {
					s := SubOp{At: r.intn(12), K: key()}
					if r.chance(50) {
						s.Kind = "put"
						s.V = val(s.K)
					} else {
						s.Kind = "del"
					}
					o.Sub = append(o.Sub, s)
					if stream == "ploss" && r.chance(35) {
						// an explicit Sync while the compaction is under way: everything acknowledged so far
						// (also what sits in a segment the compaction has sealed) must be durable after it
						o.Sub = append(o.Sub, SubOp{At: s.At, Kind: "sync"})
					}
				}
				if (h.prop == "C09" || h.prop == "C10" || h.prop == "C06") && r.chance(25) || r.chance(4) {
					// Close racing with this compaction at one of its lock-free points
					o.Sub = append(o.Sub, SubOp{At: r.intn(6), Kind: "close"})
				}
				sort.SliceStable(o.Sub, func(a, b int) bool { return o.Sub[a].At < o.Sub[b].At })
				c.Ops = append(c.Ops, o)
			} else {
				c.Ops = append(c.Ops, Op{Kind: "compact"})
			}
			if r.chance(40) {
				// the database must stay usable right after a compaction, whatever it removed
				c.Ops = append(c.Ops, Op{Kind: "sync"})
			}
		case 8:
			c.Ops = append(c.Ops, Op{Kind: "reopen"})
		case 9:
			if stream != "ploss" && r.chance(60) {
				k := key()
				kind := "crashtorn"
				if r.chance(35) {
					kind = "crashtornhdr"
				}
				v := val(k)
				if len(v) < 600 && maxVal >= 700 && r.chance(60) {
					v = patternBytes(600+r.intn(100), byte(r.next()))
				}
				c.Ops = append(c.Ops, Op{Kind: kind, K: k, V: v})
			} else {
				c.Ops = append(c.Ops, Op{Kind: "crashreopen"})
			}
		case 10:
			switch {
			case h.prop == "C11" || (stream == "ops" && r.chance(30)):
				o := Op{Kind: "scan"}
				for j, n := 0, r.intn(8); j < n; j++ {
					u := SubOp{At: r.intn(len(c.Pool) + 2), K: key()}
					if r.chance(15) {
						u.Kind = "compact"
						o.Sub = append(o.Sub, u)
						continue
					}
					if r.chance(65) {
						u.Kind = "put"
						u.V = val(u.K)
					} else {
						u.Kind = "del"
					}
					o.Sub = append(o.Sub, u)
				}
				sort.SliceStable(o.Sub, func(a, b int) bool { return o.Sub[a].At < o.Sub[b].At })
				c.Ops = append(c.Ops, o)
			case h.prop == "C12" || (stream == "ops" && r.chance(30)):
				o := Op{Kind: "backup"}
				for j, n := 0, r.intn(6); j < n; j++ {
					u := SubOp{At: r.intn(6), K: key()}
					if r.chance(15) {
						u.Kind = "compact"
						o.Sub = append(o.Sub, u)
						continue
					}
					if r.chance(65) {
						u.Kind = "put"
						u.V = val(u.K)
					} else {
						u.Kind = "del"
					}
					o.Sub = append(o.Sub, u)
				}
				sort.SliceStable(o.Sub, func(a, b int) bool { return o.Sub[a].At < o.Sub[b].At })
				c.Ops = append(c.Ops, o)
			case h.prop == "C04" && r.chance(25):
				c.Ops = append(c.Ops, Op{Kind: "recoveryloop"})
			case h.prop == "C13" || (h.prop == "C02" && stream == "ops" && r.chance(70)) || (stream != "ploss" && r.chance(30)):
				// (C02 is about what Close leaves: its own runs fail a call inside Close more often)
				if r.chance(50) || h.prop == "C02" {
					c.Ops = append(c.Ops, Op{Kind: "failclose"})
				} else {
					c.Ops = append(c.Ops, Op{Kind: "failopen"})
				}
			default:
				c.Ops = append(c.Ops, Op{Kind: "dump"})
			}
		case 11:
			c.Ops = append(c.Ops, Op{Kind: "getappend", K: key(), V: patternBytes(r.intn(5), 'B')})
		}
	}
	if h.prop == "C04" && stream == "crash" && r.chance(30) && len(c.Ops) > 10 {
		// somewhere in the history the recovering Open crashes many times in a row
		at := 5 + r.intn(len(c.Ops)-5)
		c.Ops = append(c.Ops[:at], append([]Op{{Kind: "recoveryloop"}}, c.Ops[at:]...)...)
	}
	return c
}

// ---- execution --------------------------------------------------------------

type session struct {
	h      *harness
	c      *Case
	stream string
	sim    *simfs.FS
	db     *pogreb.DB
	opts   *pogreb.Options
	// crash-image bookkeeping
	img           *simfs.Image // image after journal[:imgAt]
	imgAt         int
	pl            *simfs.PLState
	plAt          int
	opIndex       int
	r             *rng
	base          *simfs.Image // image the current sim started from
	bkNo          int
	fresh         int // counter of keys made up by macro operations
	closedHandles []*pogreb.DB
}

func (s *session) readSeg(name string) []byte {
	b, _ := s.sim.Snapshot().File(dbDir + "/" + name)
	return b
}

func (s *session) open(kind string) bool {
	db, err := pogreb.Open(dbDir, s.opts)
	if err != nil {
		s.h.emit("open kind=%s res=%s", kind, errStr(err))
		s.db = nil
		return false
	}
	s.db = db
	if kind == "fresh" {
		db.VerifSetHashSeed(s.c.Cfg.HashSeed)
	}
	s.h.emit("open kind=%s res=ok seed=%d", kind, db.VerifHashSeed())
	return true
}

func dirLine(im *simfs.Image) string {
	var out []string
	for _, n := range im.Names() {
		if strings.HasPrefix(n, dbDir+"/") {
			out = append(out, strings.TrimPrefix(n, dbDir+"/"))
		}
	}
	if len(out) == 0 {
		return "-"
	}
	return strings.Join(out, ",")
}

func (s *session) checkpoint(withDump bool) {
	if s.db == nil {
		return
	}
	segsDurable = nil
	if s.stream == "ploss" {
		s.plossImages(s.sim.JournalLen()) // bring the durable image up to date
		segsDurable = func(name string) int {
			b, ok := s.pl.Durable.File(dbDir + "/" + name)
			if !ok {
				return -1
			}
			return len(b)
		}
	}
	s.h.emit("segs %s", segsLine(s.db, s.readSeg))
	segsDurable = nil
	if s.h.prop == "C15" || s.h.prop == "C05" || s.h.prop == "C04" {
		// segment statistics, incl. the garbage figures that drive the choice of segments to compact
		// (id:DeletedBytes:DeletedKeys:PutRecords:DeleteRecords)
		var parts []string
		for _, sg := range s.db.VerifSegments() {
			parts = append(parts, fmt.Sprintf("%d:%d:%d:%d:%d", sg.ID, sg.DeletedBytes, sg.DeletedKeys, sg.PutRecords, sg.DeleteRecords))
		}
		if len(parts) > 0 {
			s.h.emit("segmeta %s", strings.Join(parts, " "))
		}
	}
	s.h.emit("dir %s handles=%d", dirLine(s.sim.Snapshot()), s.sim.OpenHandles())
	if withDump {
		s.h.emit("%s", dumpLine(s.db))
	}
}

func isMacro(kind string) bool {
	switch kind {
	case "growchain", "thinchain", "pushsplit", "killsegment", "rewritechain", "fillseg", "drainchain":
		return true
	}
	return false
}

// ---- adaptive macro operations ----------------------------------------------------------------
// They look at the real index (and segments) and expand into ordinary put/del lines, so that the
// driver needs to know nothing about them; they steer a case into states random keys rarely reach:
// very long chains, chains with holes, splits of a chosen bucket, segments with no live record.

type chainInfo struct {
	idx     int      // main bucket index
	buckets int      // buckets in the chain
	hashes  []uint32 // hashes of the slots, bucket by bucket
}

func (s *session) chains() (d pogreb.VerifIndexDump, out []chainInfo, ok bool) {
	d, err := s.db.VerifDumpIndex()
	if err != nil {
		return d, nil, false
	}
	nextOf := func(b []byte) int64 { return int64(binary.LittleEndian.Uint64(b[496:504])) }
	for i := 0; 512+(i+1)*512 <= len(d.Main); i++ {
		ci := chainInfo{idx: i}
		b := d.Main[512+i*512 : 512+(i+1)*512]
		for hops := 0; hops < 4096; hops++ {
			ci.buckets++
			for j := 0; j < 31; j++ {
				sl := b[j*16 : j*16+16]
				if binary.LittleEndian.Uint32(sl[12:16]) == 0 {
					break
				}
				ci.hashes = append(ci.hashes, binary.LittleEndian.Uint32(sl[0:4]))
			}
			off := nextOf(b)
			if off == 0 || off+512 > int64(len(d.Overflow)) {
				break
			}
			b = d.Overflow[off : off+512]
		}
		out = append(out, ci)
	}
	return d, out, len(out) > 0
}

func bucketOf(level uint8, split uint32, h uint32) uint32 {
	b := h & (uint32(1)<<level - 1)
	if b < split {
		b = h & (uint32(1)<<(level+1) - 1)
	}
	return b
}

// freshKey returns a key not used before in this case whose hash satisfies pred.
func (s *session) freshKey(pred func(h uint32) bool) []byte {
	seed := s.db.VerifHashSeed()
	for tries := 0; tries < 2000000; tries++ {
		s.fresh++
		k := []byte(fmt.Sprintf("m%x", s.fresh))
		if pred(murmur32(k, seed)) {
			s.c.Pool = append(s.c.Pool, k)
			return k
		}
	}
	return nil
}

func (s *session) longest(cs []chainInfo) chainInfo {
	best := cs[0]
	for _, c := range cs {
		if len(c.hashes) > len(best.hashes) {
			best = c
		}
	}
	return best
}

func (s *session) macro(kind string, n int) {
	if s.db == nil {
		return
	}
	d, cs, ok := s.chains()
	if !ok {
		return
	}
	s.h.stat("macro." + kind)
	put := func(k []byte) {
		if k != nil {
			s.userOp(SubOp{Kind: "put", K: k, V: patternBytes(s.r.intn(3), byte(s.r.next()))})
		}
	}
	keysByHash := func() map[uint32][][]byte {
		m := map[uint32][][]byte{}
		for _, k := range s.c.Pool {
			hv := s.db.VerifHash(k)
			m[hv] = append(m[hv], k)
		}
		return m
	}
	switch kind {
	case "growchain":
		// n new keys into the longest chain (they agree with one of its keys in the low 16 bits, so
		// they stay together through many splits)
		target := s.longest(cs)
		want := uint32(target.idx)
		if len(target.hashes) > 0 {
			want = target.hashes[0] & 0xffff
			for i := 0; i < n; i++ {
				put(s.freshKey(func(h uint32) bool { return h&0xffff == want }))
			}
			return
		}
		for i := 0; i < n; i++ {
			put(s.freshKey(func(h uint32) bool { return bucketOf(d.Level, d.SplitBucketIdx, h) == want }))
		}
	case "pushsplit":
		// n new keys that do NOT land in the longest chain: the table grows, the split pointer moves
		target := s.longest(cs)
		for i := 0; i < n; i++ {
			put(s.freshKey(func(h uint32) bool {
				return bucketOf(d.Level, d.SplitBucketIdx, h) != uint32(target.idx) && (len(target.hashes) == 0 || h&7 != target.hashes[0]&7)
			}))
		}
	case "drainchain":
		// delete EVERY key of the longest chain (its overflow buckets stay linked, empty), then grow the
		// table elsewhere until that bucket has been split: the whole chain goes to the free list (and
		// sits there across the restarts that follow, to be reused by later chains)
		target := s.longest(cs)
		if target.buckets < 3 {
			return
		}
		byHash := keysByHash()
		for _, hv := range target.hashes {
			for _, k := range byHash[hv] {
				s.userOp(SubOp{Kind: "del", K: k})
			}
		}
		for i := 0; i < 2000; i++ {
			_, cs2, ok2 := s.chains()
			if !ok2 || target.idx >= len(cs2) || cs2[target.idx].buckets == 1 {
				break
			}
			put(s.freshKey(func(h uint32) bool { return h&7 != target.hashes[0]&7 }))
		}
		s.h.stat("macro.drainchain.done")
	case "thinchain":
		// delete about half of the keys of the longest chain
		target := s.longest(cs)
		byHash := keysByHash()
		for _, hv := range target.hashes {
			if s.r.chance(50) {
				for _, k := range byHash[hv] {
					s.userOp(SubOp{Kind: "del", K: k})
				}
			}
		}
	case "fillseg":
		// one record that ends exactly at the segment limit (n = 1), one byte short (0) or one over (2)
		var curSize int64 = -1
		for _, sg := range s.db.VerifSegments() {
			if sg.Current {
				curSize = sg.Size
			}
		}
		if curSize < 0 {
			return
		}
		k := s.freshKey(func(uint32) bool { return true })
		room := int64(s.c.Cfg.MaxSeg) - curSize - 10 - int64(len(k)) + int64(n) - 1
		if room < 0 || room > 4000 {
			return
		}
		s.userOp(SubOp{Kind: "put", K: k, V: patternBytes(int(room), byte(s.r.next()))})
	case "rewritechain":
		// overwrite about a third of the keys of the longest chain (existing keys behind holes)
		target := s.longest(cs)
		byHash := keysByHash()
		for _, hv := range target.hashes {
			if s.r.chance(33) {
				for _, k := range byHash[hv] {
					put(k)
				}
			}
		}
	case "killsegment":
		// overwrite every key whose record lives in the oldest sealed segment: it holds no live record then
		segs := s.db.VerifSegments()
		var victim *pogreb.VerifSegment
		for i := range segs {
			if segs[i].Full && (victim == nil || segs[i].SequenceID < victim.SequenceID) {
				victim = &segs[i]
			}
		}
		if victim == nil {
			return
		}
		byHash := keysByHash()
		seen := map[string]bool{}
		scanBuckets := func(file []byte) {
			for off := 512; off+512 <= len(file); off += 512 {
				for j := 0; j < 31; j++ {
					sl := file[off+j*16 : off+j*16+16]
					if binary.LittleEndian.Uint32(sl[12:16]) == 0 {
						break
					}
					if binary.LittleEndian.Uint16(sl[4:6]) == victim.ID {
						for _, k := range byHash[binary.LittleEndian.Uint32(sl[0:4])] {
							if !seen[string(k)] {
								seen[string(k)] = true
								put(k)
							}
						}
					}
				}
			}
		}
		scanBuckets(d.Main)
		scanBuckets(d.Overflow)
	}
}

// nonTailBucketKeys picks a bucket that has a successor in its chain (preferring chains the split
// pointer has not passed at this level) and returns the pool keys stored in it.
func (s *session) nonTailBucketKeys() [][]byte {
	d, err := s.db.VerifDumpIndex()
	if err != nil {
		return nil
	}
	byHash := map[uint32][][]byte{}
	for _, k := range s.c.Pool {
		hv := s.db.VerifHash(k)
		byHash[hv] = append(byHash[hv], k)
	}
	type cand struct {
		data []byte
		main bool
		idx  int
	}
	var cands []cand
	nextOf := func(b []byte) int64 { return int64(binary.LittleEndian.Uint64(b[496:504])) }
	for i := 0; 512+(i+1)*512 <= len(d.Main); i++ {
		b := d.Main[512+i*512 : 512+(i+1)*512]
		for hops := 0; nextOf(b) != 0 && hops < 1000; hops++ {
			cands = append(cands, cand{b, hops == 0, i})
			off := nextOf(b)
			if off+512 > int64(len(d.Overflow)) {
				break
			}
			b = d.Overflow[off : off+512]
		}
	}
	if len(cands) == 0 {
		s.h.stat("emptybucket.none")
		return nil
	}
	var pref []cand
	for _, c := range cands {
		if c.idx >= int(d.SplitBucketIdx) {
			pref = append(pref, c)
		}
	}
	if len(pref) > 0 && s.r.chance(80) {
		cands = pref
	}
	c := cands[s.r.intn(len(cands))]
	var keys [][]byte
	for j := 0; j < 31; j++ {
		sl := c.data[j*16 : j*16+16]
		if binary.LittleEndian.Uint32(sl[12:16]) == 0 {
			break
		}
		keys = append(keys, byHash[binary.LittleEndian.Uint32(sl[0:4])]...)
	}
	s.h.stat("emptybucket.done")
	return keys
}

// recoverImage opens an image with the real code and reports what it contains.
func (s *session) recoverImage(im *simfs.Image) (string, *simfs.FS) {
	fs2 := simfs.FromImage(im)
	o := *s.opts
	o.FileSystem = fs2
	var db2 *pogreb.DB
	var err error
	func() {
		defer func() {
			if e := recover(); e != nil {
				err = fmt.Errorf("panic: %v", e)
			}
		}()
		db2, err = pogreb.Open(dbDir, &o)
	}()
	if err != nil {
		return "openerr=" + errStr(err), fs2
	}
	return observe(db2, s.c.Pool), fs2
}

// crashImages enumerates every crash image of journal[from:to) and reports the distinct
// recovered states. mode is "inflight" (a write operation is in flight: before or after
// state admissible) or "stable" (contents must equal the current state).
func (s *session) crashImages(mode string, to int) {
	if s.stream != "crash" {
		return
	}
	j := s.sim.Journal()
	if to > len(j) {
		to = len(j)
	}
	outcomes := map[string]int{}
	first := map[string]string{}
	n := 0
	try := func(im *simfs.Image, desc string) {
		n++
		res, fs2 := s.recoverImage(im)
		if _, ok := outcomes[res]; !ok {
			first[res] = desc
		}
		outcomes[res]++
		// C04: crash again inside the recovery that just ran (sampled).
		if s.r.chance(s.c04rate()) && !strings.HasPrefix(res, "openerr") {
			j2 := fs2.Journal()
			pts := 0
			for i := range j2 {
				if j2[i].StateChanging() {
					pts++
				}
			}
			if pts > 0 {
				pick := s.r.intn(pts)
				for i := range j2 {
					if j2[i].StateChanging() {
						if pick == 0 {
							cut := int64(-1)
							if cs := simfs.TearCuts(j2[i]); len(cs) > 0 && s.r.chance(50) {
								cut = cs[s.r.intn(len(cs))]
							}
							im2 := simfs.CrashImage(im, j2, i, cut)
							res2, _ := s.recoverImage(im2)
							d2 := fmt.Sprintf("%s+rec@%d/%d", desc, i, cut)
							if _, ok := outcomes[res2]; !ok {
								first[res2] = d2
							}
							outcomes[res2]++
							n++
							s.h.stat("crash.nested")
							break
						}
						pick--
					}
				}
			}
		}
	}
	for i := s.imgAt; i < to; i++ {
		e := j[i]
		if e.StateChanging() && e.Kind != simfs.KSync {
			// crash before entry i (== after entry i-1): only interesting at the first
			// entry or when the previous one changed state; the loop covers it by trying
			// the image *after* each state-changing entry, plus the initial one.
			for _, cut := range simfs.TearCuts(e) {
				im := s.img.Clone()
				im.Apply(e, cut)
				try(im, fmt.Sprintf("j%d/cut%d", i, cut))
				s.h.stat("crash.torn")
			}
			s.img.Apply(e, -1)
			try(s.img.Clone(), fmt.Sprintf("j%d", i+1))
			s.h.stat("crash.point")
		}
	}
	s.imgAt = to
	if n == 0 {
		return
	}
	keys := make([]string, 0, len(outcomes))
	for k := range outcomes {
		keys = append(keys, k)
	}
	sort.Strings(keys)
	for _, k := range keys {
		s.h.emit("image crash mode=%s op=%d at=%s times=%d %s", mode, s.opIndex, first[k], outcomes[k], k)
	}
}

func (s *session) c04rate() int {
	if s.h.prop == "C04" {
		return 35
	}
	return 4
}

// plossImages enumerates admissible power-loss images at the instants of journal[plAt:to).
func (s *session) plossImages(to int) {
	if s.stream != "ploss" {
		return
	}
	j := s.sim.Journal()
	if to > len(j) {
		to = len(j)
	}
	outcomes := map[string]int{}
	first := map[string]string{}
	try := func(choice map[int]simfs.PLChoice, desc string) {
		res, _ := s.recoverImage(s.pl.Image(choice))
		if _, ok := outcomes[res]; !ok {
			first[res] = desc
		}
		outcomes[res]++
		s.h.stat("ploss.image")
	}
	budget := 40
	if s.h.tier == "thorough" {
		budget = 200
	}
	enumerate := func(at int) {
		inos := s.pl.Inodes()
		// corners
		try(nil, fmt.Sprintf("j%d/none", at))
		if len(inos) == 0 {
			return
		}
		all := map[int]simfs.PLChoice{}
		vars := map[int][]simfs.PLChoice{}
		total := 1
		for _, ino := range inos {
			v := s.pl.Variants(ino, 3)
			vars[ino] = v
			all[ino] = v[len(v)-1]
			if total < 1<<20 {
				total *= len(v)
			}
		}
		try(all, fmt.Sprintf("j%d/all", at))
		if total <= budget {
			// full product
			idx := make([]int, len(inos))
			for {
				ch := map[int]simfs.PLChoice{}
				for i, ino := range inos {
					ch[ino] = vars[ino][idx[i]]
				}
				try(ch, fmt.Sprintf("j%d/prod", at))
				k := 0
				for k < len(inos) {
					idx[k]++
					if idx[k] < len(vars[inos[k]]) {
						break
					}
					idx[k] = 0
					k++
				}
				if k == len(inos) {
					break
				}
			}
		} else {
			for t := 0; t < budget; t++ {
				ch := map[int]simfs.PLChoice{}
				for _, ino := range inos {
					if s.r.chance(15) {
						continue
					}
					v := vars[ino]
					ch[ino] = v[s.r.intn(len(v))]
				}
				try(ch, fmt.Sprintf("j%d/rand", at))
			}
			// one file at a time fully kept, the others dropped, and vice versa
			for _, ino := range inos {
				try(map[int]simfs.PLChoice{ino: all[ino]}, fmt.Sprintf("j%d/only%d", at, ino))
				ch := map[int]simfs.PLChoice{}
				for _, o := range inos {
					if o != ino {
						ch[o] = all[o]
					}
				}
				try(ch, fmt.Sprintf("j%d/allbut%d", at, ino))
			}
		}
	}
	for i := s.plAt; i < to; i++ {
		e := j[i]
		if !e.StateChanging() {
			continue
		}
		s.pl.Advance(e)
		enumerate(i + 1)
	}
	s.plAt = to
	keys := make([]string, 0, len(outcomes))
	for k := range outcomes {
		keys = append(keys, k)
	}
	sort.Strings(keys)
	for _, k := range keys {
		s.h.emit("image ploss op=%d at=%s times=%d %s", s.opIndex, first[k], outcomes[k], k)
	}
}

func (s *session) images(mode string) {
	to := s.sim.JournalLen()
	s.crashImages(mode, to)
	s.plossImages(to)
}

// crashTorn runs a Put, lets the process die at a random instant inside it (torn writes
// included; with hdr the write is torn inside the 6-byte record header) and continues the
// case from that image.
func (s *session) crashTorn(o Op, hdr bool) {
	h := s.h
	if hdr {
		// align the next record so that a 512-byte boundary falls 1..5 bytes into it
		var cur *pogreb.VerifSegment
		for _, sg := range s.db.VerifSegments() {
			sg := sg
			if sg.Current {
				cur = &sg
			}
		}
		if cur != nil {
			j := 1 + s.r.intn(5)
			fk := []byte("fill")
			// filler record occupies 10+len(fk)+n bytes; want (size+10+4+n) % 512 == 512-j
			want := (512 - j - (int(cur.Size)+14)%512 + 1024) % 512
			if int(cur.Size)+14+want+40 < int(s.c.Cfg.MaxSeg) {
				fv := patternBytes(want, 'F')
				err := s.db.Put(fk, fv)
				h.emit("put %s %s %s", hx(fk), hx(fv), errStr(err))
				s.images("inflight")
				if s.c.Cfg.SyncMode && err == nil {
					h.emit("syncpoint")
				}
				h.stat("torn.hdr.aligned")
			}
		}
	}
	from := s.sim.JournalLen()
	err := s.db.Put(append([]byte(nil), o.K...), append([]byte(nil), o.V...))
	h.emit("put %s %s %s", hx(o.K), hx(o.V), errStr(err))
	j := s.sim.Journal()
	// candidate crash points: (n, cut)
	type pt struct {
		n   int
		cut int64
	}
	var pts, torn []pt
	for i := from; i < len(j); i++ {
		if !j[i].StateChanging() || j[i].Kind == simfs.KSync {
			continue
		}
		pts = append(pts, pt{i, -1})
		if strings.HasSuffix(j[i].Name, ".psg") {
			for _, c := range simfs.TearCuts(j[i]) {
				torn = append(torn, pt{i, c})
			}
		}
	}
	pts = append(pts, pt{len(j), -1})
	var p pt
	if len(torn) > 0 && (hdr || s.r.chance(70)) {
		p = torn[s.r.intn(len(torn))]
		h.stat("torn.segment")
	} else {
		p = pts[s.r.intn(len(pts))]
	}
	im := simfs.CrashImage(s.base, j, p.n, p.cut)
	h.emit("kill torn at=j%d/cut%d", p.n, p.cut)
	// the model adopts the segment files of the image
	var parts []string
	for _, name := range im.Names() {
		if strings.HasPrefix(name, dbDir+"/") && strings.HasSuffix(name, ".psg") {
			b, _ := im.File(name)
			data := []byte{}
			if len(b) > 512 {
				data = b[512:]
			}
			parts = append(parts, fmt.Sprintf("%s:%s", strings.TrimSuffix(strings.TrimPrefix(name, dbDir+"/"), ".psg"), hx(data)))
		}
	}
	if len(parts) == 0 {
		parts = []string{"-"}
	}
	h.emit("adopt %s", strings.Join(parts, " "))
	s.sim = simfs.FromImage(im)
	s.base = im
	s.opts = s.c.Cfg.options(s.sim)
	s.img = im.Clone()
	s.imgAt = 0
	s.pl = simfs.NewPLState(im)
	s.plAt = 0
	if s.open("recover") {
		h.emit("state %s", observe(s.db, s.c.Pool))
		s.images("stable")
	}
}

func (s *session) userOp(u SubOp) {
	h := s.h
	switch u.Kind {
	case "growchain", "thinchain", "pushsplit", "killsegment", "rewritechain", "fillseg", "drainchain":
		s.macro(u.Kind, len(u.V))
		return
	}
	if u.Kind == "compact" {
		// a maintenance task started while another one runs must be refused
		_, err := s.db.Compact()
		h.emit("bcompact %s", errStr(err))
		return
	}
	if u.Kind == "sync" {
		err := s.db.Sync()
		h.emit("sync %s", errStr(err))
		s.images("stable")
		if err == nil {
			h.emit("syncpoint")
		}
		h.stat("userop.sync")
		return
	}
	if u.Kind == "put" {
		err := s.db.Put(append([]byte(nil), u.K...), append([]byte(nil), u.V...))
		h.emit("put %s %s %s", hx(u.K), hx(u.V), errStr(err))
	} else {
		err := s.db.Delete(append([]byte(nil), u.K...))
		h.emit("del %s %s", hx(u.K), errStr(err))
	}
	s.images("inflight")
	if s.c.Cfg.SyncMode {
		h.emit("syncpoint")
	}
}

// scan runs a full Items scan, Next by Next, with the scheduled writer operations placed
// between Next calls (At = number of Next calls made before the operation).
func (s *session) scan(o Op) {
	h := s.h
	h.emit("scanbegin")
	it := s.db.Items()
	sub := o.Sub
	n := 0
	var last []byte
	for {
		for len(sub) > 0 && (sub[0].At <= n || (sub[0].At == onChainKey && last != nil && s.inFirstChain(last)) ||
			(sub[0].At == onLongestChain && last != nil && s.inLongestChain(last))) {
			if sub[0].Kind == "compact" {
				// a whole compaction between two Next calls (segments the scan has queued items of may go away)
				s.compact(Op{Kind: "compact"})
				h.stat("scan.compact")
			} else {
				s.userOp(sub[0])
				h.stat("scan.userop")
			}
			sub = sub[1:]
		}
		k, v, err := it.Next()
		if err == pogreb.ErrIterationDone {
			break
		}
		if err != nil {
			h.emit("next err=%s", errStr(err))
			break
		}
		h.emit("next %s %s", hx(k), hx(v))
		last = k
		n++
		if n > 100000 {
			break
		}
	}
	// done forever
	_, _, e1 := it.Next()
	_, _, e2 := it.Next()
	done := 0
	if e1 == pogreb.ErrIterationDone && e2 == pogreb.ErrIterationDone {
		done = 1
	}
	h.emit("scanend n=%d donesticky=%d", n, done)
}

// onChainKey as SubOp.At: the sub-operation fires as soon as the scan has returned a key of the
// case's first chain (the keys whose hash agrees with the first pool key's in the low 3 bits).
const onChainKey = 1 << 30

// onLongestChain as SubOp.At: fires as soon as the scan has returned a key stored in the chain that
// currently holds the most keys (the scan is then positioned inside it).
const onLongestChain = 1<<30 + 1

func (s *session) inLongestChain(k []byte) bool {
	d, cs, ok := s.chains()
	if !ok {
		return false
	}
	l := s.longest(cs)
	return l.buckets >= 2 && bucketOf(d.Level, d.SplitBucketIdx, s.db.VerifHash(k)) == uint32(l.idx)
}

func (s *session) inFirstChain(k []byte) bool {
	if len(s.c.Pool) == 0 {
		return false
	}
	return murmur32(k, s.c.Cfg.HashSeed)&7 == murmur32(s.c.Pool[0], s.c.Cfg.HashSeed)&7
}

// backup runs Backup with writer operations placed at its yield points and opens the result.
func (s *session) backup(o Op) {
	h := s.h
	if s.bkNo > 0 && s.r.chance(40) {
		// back up into the directory of the previous backup again (a periodic backup to one place):
		// whatever compaction removed from the database since must not survive in the destination
		h.stat("backup.samedir")
	} else {
		s.bkNo++
	}
	path := fmt.Sprintf("bk%d", s.bkNo)
	h.emit("bbegin path=%s", path)
	sub := o.Sub
	yieldNo := 0
	pogreb.VerifSetYield(func(point string) {
		if !strings.HasPrefix(point, "backup.") {
			return
		}
		for len(sub) > 0 && sub[0].At <= yieldNo {
			s.userOp(sub[0])
			sub = sub[1:]
			h.stat("backup.userop")
		}
		yieldNo++
	})
	before := dirLine(s.sim.Snapshot())
	err := s.db.Backup(path)
	pogreb.VerifSetYield(nil)
	h.emit("bend %s", errStr(err))
	if err != nil {
		return
	}
	// the source directory holds the same files as before plus whatever the writers did; the
	// backup opens (on a copy of the image, so that the source session is undisturbed)
	_ = before
	im := s.sim.Snapshot()
	fs2 := simfs.FromImage(im)
	o2 := *s.opts
	o2.FileSystem = fs2
	db2, err := pogreb.Open(path, &o2)
	if err != nil {
		h.emit("bstate openerr=%s", errStr(err))
		return
	}
	h.emit("bstate %s", observe(db2, s.c.Pool))
}

// failOpen: the process dies; an Open that fails part-way must leave the unclean-shutdown mark.
func (s *session) failOpen() {
	h := s.h
	s.sim.Kill()
	h.emit("kill")
	s.sim.ResetFailBudget(1 + s.r.intn(12))
	db, err := pogreb.Open(dbDir, s.opts)
	s.sim.ResetFailBudget(-1)
	if err == nil {
		// the budget was large enough: a normal recovery
		s.db = db
		h.emit("open kind=recover res=ok seed=%d", db.VerifHashSeed())
		h.emit("state %s", observe(s.db, s.c.Pool))
		s.images("stable")
		return
	}
	h.emit("failedopen %s", errStr(err))
	h.stat("failopen.failed")
	s.sim.Kill() // the failed process goes away too
	if s.open("recover") {
		h.emit("state %s", observe(s.db, s.c.Pool))
		s.images("stable")
	}
}

// useAfterClose: operations on a handle whose Close has returned nil lose the race with Close by the
// widest margin: they must fail (or be harmless reads), must not panic and must leave no trace in the
// directory the database has released.
func (s *session) useAfterClose() {
	if s.db == nil || (!s.r.chance(35) && s.h.prop != "C10" && s.h.prop != "C15") {
		return
	}
	db := s.db
	before := dirLine(s.sim.Snapshot())
	call := func(f func() error) (res string) {
		defer func() {
			if e := recover(); e != nil {
				res = "panic:" + strings.ReplaceAll(fmt.Sprint(e), " ", "_")
			}
		}()
		return errStr(f())
	}
	k := []byte("after-close")
	put := call(func() error { return db.Put(k, []byte("x")) })
	del := call(func() error { return db.Delete(s.c.Pool[s.r.intn(len(s.c.Pool))]) })
	syn := call(func() error { return db.Sync() })
	cmp := call(func() error { _, err := db.Compact(); return err })
	same := 0
	if dirLine(s.sim.Snapshot()) == before {
		same = 1
	}
	s.h.emit("afterclose put=%s del=%s sync=%s compact=%s dirsame=%d handles=%d", put, del, syn, cmp, same, s.sim.OpenHandles())
	s.h.stat("afterclose")
}

// failClose: one file-system call inside Close fails. A Close that returned an error did not
// complete: the lock file must still be there and the next Open must recover.
func (s *session) failClose() {
	h := s.h
	h.emit("state %s", observe(s.db, s.c.Pool))
	s.sim.ResetFailBudget(s.r.intn(40))
	err := s.db.Close()
	s.sim.ResetFailBudget(-1)
	if err == nil {
		// the budget outlived the Close: a clean restart
		h.emit("close ok")
		h.emit("syncpoint")
		s.images("stable")
		s.open("clean")
		return
	}
	h.stat("failclose.failed")
	lock := 0
	if _, ok := s.sim.Snapshot().File(dbDir + "/lock"); ok {
		lock = 1
	}
	h.emit("failedclose %s lock=%d", errStr(err), lock)
	s.sim.Kill()
	h.emit("kill")
	if s.open("recover") {
		h.emit("state %s", observe(s.db, s.c.Pool))
		s.images("stable")
	}
}

func (h *harness) runCase(c *Case, stream string, r *rng) {
	h.emit("case %s", c.Name)
	h.emit("cfg %s hashseed=%d", c.Cfg.line(), c.Cfg.HashSeed)
	sim := simfs.New()
	// per-case PRNG (derived from the case name) so that a case replays exactly on its own
	hs := uint64(14695981039346656037)
	for _, ch := range []byte(c.Name) {
		hs = (hs ^ uint64(ch)) * 1099511628211
	}
	r = &rng{s: hs}
	s := &session{h: h, c: c, stream: stream, sim: sim, opts: c.Cfg.options(sim), img: simfs.NewImage(), pl: simfs.NewPLState(simfs.NewImage()), r: r, base: simfs.NewImage()}
	if !s.open("fresh") {
		h.emit("end")
		return
	}
	s.images("stable")
	sinceCk := 0
	defer func() {
		// a panic inside the implementation is a failure of the case, not of the harness
		if e := recover(); e != nil {
			h.emit("panic op=%d %s", s.opIndex, strings.ReplaceAll(fmt.Sprint(e), " ", "_"))
			h.emit("end")
			pogreb.VerifSetYield(nil)
		}
	}()
	for i, o := range c.Ops {
		s.opIndex = i
		if s.db == nil {
			break
		}
		h.stat("op." + o.Kind)
		switch o.Kind {
		case "put":
			err := s.db.Put(append([]byte(nil), o.K...), append([]byte(nil), o.V...))
			h.emit("put %s %s %s", hx(o.K), hx(o.V), errStr(err))
			s.images("inflight")
			if c.Cfg.SyncMode && err == nil {
				h.emit("syncpoint")
			}
		case "del":
			err := s.db.Delete(append([]byte(nil), o.K...))
			h.emit("del %s %s", hx(o.K), errStr(err))
			s.images("inflight")
			if c.Cfg.SyncMode && err == nil {
				h.emit("syncpoint")
			}
		case "growchain", "thinchain", "pushsplit", "killsegment", "rewritechain", "fillseg", "drainchain":
			s.macro(o.Kind, len(o.V))
		case "emptybucket":
			// adaptive: delete every key stored in one non-tail bucket of a multi-bucket chain
			for _, k := range s.nonTailBucketKeys() {
				err := s.db.Delete(append([]byte(nil), k...))
				h.emit("del %s %s", hx(k), errStr(err))
				s.images("inflight")
				if c.Cfg.SyncMode && err == nil {
					h.emit("syncpoint")
				}
			}
		case "get":
			v, err := s.db.Get(o.K)
			if err != nil {
				h.emit("get %s %s", hx(o.K), errStr(err))
			} else if v == nil {
				h.emit("get %s none", hx(o.K))
			} else {
				h.emit("get %s some %s", hx(o.K), hx(v))
			}
		case "getappend":
			buf := append(make([]byte, 0, len(o.V)+4), o.V...)
			v, err := s.db.GetAppend(o.K, buf)
			if err != nil {
				h.emit("getappend %s %s %s", hx(o.K), hx(o.V), errStr(err))
			} else if v == nil {
				h.emit("getappend %s %s none", hx(o.K), hx(o.V))
			} else {
				h.emit("getappend %s %s some %s", hx(o.K), hx(o.V), hx(v))
			}
		case "has":
			b, err := s.db.Has(o.K)
			if err != nil {
				h.emit("has %s %s", hx(o.K), errStr(err))
			} else if b {
				h.emit("has %s 1", hx(o.K))
			} else {
				h.emit("has %s 0", hx(o.K))
			}
		case "count":
			h.emit("count %d", s.db.Count())
		case "items":
			h.emit("state %s", observe(s.db, c.Pool))
		case "sync":
			err := s.db.Sync()
			h.emit("sync %s", errStr(err))
			s.images("stable")
			if err == nil {
				h.emit("syncpoint")
			}
		case "compact", "compactx":
			s.compact(o)
			sinceCk = 1 << 30
		case "reopen":
			old := s.db
			if d, derr := s.db.VerifDumpIndex(); derr == nil {
				// input distribution: how many buckets at the end of the overflow file are free at Close
				free := map[int64]bool{}
				for _, o := range d.FreeBucketOffs {
					free[o] = true
				}
				tail := 0
				for off := int64(len(d.Overflow)) - 512; off >= 512 && free[off]; off -= 512 {
					tail++
				}
				switch {
				case tail == 0:
					h.stat("close.freetail.0")
				case tail < 4:
					h.stat("close.freetail.1-3")
				case tail < 8:
					h.stat("close.freetail.4-7")
				default:
					h.stat("close.freetail.8+")
				}
			}
			err := s.db.Close()
			h.emit("close %s", errStr(err))
			s.images("stable")
			if err != nil {
				s.db = nil
				break
			}
			h.emit("syncpoint")
			h.emit("dir %s handles=%d", dirLine(s.sim.Snapshot()), s.sim.OpenHandles())
			s.useAfterClose()
			if len(s.closedHandles) > 0 && (s.r.chance(30) || s.h.prop == "C10") {
				// a Close of a handle of an EARLIER session while nobody has the directory open: the next
				// Open must still find what the last owner closed
				st := s.closedHandles[s.r.intn(len(s.closedHandles))]
				res := "panic"
				func() {
					defer func() { _ = recover() }()
					res = errStr(st.Close())
				}()
				h.emit("staleclose %s", res)
				h.stat("staleclose.between")
			}
			s.closedHandles = append(s.closedHandles, old)
			if s.open("clean") {
				if s.r.chance(40) || s.h.prop == "C10" {
					// a second Close of the previous handle (a deferred Close after an explicit one) while
					// the directory belongs to the new one: it must fail and touch nothing
					res := "panic"
					func() {
						defer func() { _ = recover() }()
						res = errStr(old.Close())
					}()
					h.emit("staleclose %s", res)
					h.stat("staleclose")
				}
				s.images("stable")
				h.emit("state %s", observe(s.db, c.Pool))
			}
			sinceCk = 1 << 30
		case "crashreopen":
			// the process dies between two calls; the next Open recovers
			s.sim.Kill()
			h.emit("kill")
			if s.open("recover") {
				s.images("stable")
				h.emit("state %s", observe(s.db, c.Pool))
			}
			sinceCk = 1 << 30
		case "scan":
			s.scan(o)
		case "backup":
			s.backup(o)
			sinceCk = 1 << 30
		case "failopen":
			s.failOpen()
			sinceCk = 1 << 30
		case "failclose":
			s.failClose()
			sinceCk = 1 << 30
		case "recoveryloop":
			// the recovering Open dies again and again (C04: any number of times), then one completes
			s.sim.Kill()
			h.emit("kill")
			for i := 0; i < 70; i++ {
				// die after the files have been moved aside, before the recovery is complete
				s.sim.ResetFailBudget(len(s.sim.Snapshot().Names()) + 4 + s.r.intn(6))
				db, err := pogreb.Open(dbDir, s.opts)
				s.sim.ResetFailBudget(-1)
				if err == nil {
					s.db = db
					break
				}
				s.db = nil
				h.emit("failedopen %s", errStr(err))
				s.sim.Kill()
			}
			if s.db != nil {
				h.emit("open kind=recover res=ok seed=%d", s.db.VerifHashSeed())
				h.emit("state %s", observe(s.db, c.Pool))
			} else if s.open("recover") {
				h.emit("state %s", observe(s.db, c.Pool))
			}
			s.images("stable")
			sinceCk = 1 << 30
		case "crashtorn", "crashtornhdr":
			s.crashTorn(o, o.Kind == "crashtornhdr")
			sinceCk = 1 << 30
		case "dump":
			sinceCk = 1 << 30
		}
		sinceCk++
		if sinceCk > 40 && s.db != nil {
			s.checkpoint(stream == "ops")
			sinceCk = 0
		}
	}
	if s.db != nil {
		h.emit("state %s", observe(s.db, c.Pool))
		s.checkpoint(true)
		err := s.db.Close()
		h.emit("close %s", errStr(err))
		s.images("stable")
		if err == nil {
			h.emit("syncpoint")
			h.emit("dir %s handles=%d", dirLine(s.sim.Snapshot()), s.sim.OpenHandles())
		}
	}
	h.emit("end")
}

func idsOf(segs []pogreb.VerifSegment) string {
	if len(segs) == 0 {
		return "-"
	}
	var out []string
	for _, s := range segs {
		out = append(out, fmt.Sprintf("%d", s.ID))
	}
	return strings.Join(out, ",")
}

// compact runs Compact with the scheduled user operations placed at yield points.
func (s *session) compact(o Op) {
	h := s.h
	pick := s.db.VerifPick()
	h.emit("cbegin pick=%s", idsOf(pick))
	yieldNo := 0
	sub := o.Sub
	closedInside := false
	pogreb.VerifSetYield(func(point string) {
		if !strings.HasPrefix(point, "compact.") || closedInside {
			return
		}
		// everything compaction did since the last line is "stable" for crash purposes
		h.emit("yield %s", point)
		s.images("stable")
		for len(sub) > 0 && sub[0].At <= yieldNo {
			u := sub[0]
			sub = sub[1:]
			h.stat("compactx.userop")
			if u.Kind == "close" {
				// Close wins the race with this compaction (it holds no lock here). A Close that returns nil
				// is a durable checkpoint all the same (C09); the compaction may only fail from here on (C10)
				if closedInside {
					continue
				}
				err := s.db.Close()
				h.emit("close %s", errStr(err))
				closedInside = true
				sub = nil
				s.images("stable")
				if err == nil {
					h.emit("syncpoint")
					s.images("stable")
				}
				h.stat("compactx.closed")
				break
			}
			if u.Kind == "put" {
				err := s.db.Put(append([]byte(nil), u.K...), append([]byte(nil), u.V...))
				h.emit("put %s %s %s", hx(u.K), hx(u.V), errStr(err))
			} else {
				err := s.db.Delete(append([]byte(nil), u.K...))
				h.emit("del %s %s", hx(u.K), errStr(err))
			}
			s.images("inflight")
			if s.c.Cfg.SyncMode {
				h.emit("syncpoint")
			}
		}
		yieldNo++
	})
	cr, err := s.db.Compact()
	pogreb.VerifSetYield(nil)
	if closedInside {
		h.emit("caborted %s", errStr(err))
		s.db = nil
		if s.open("clean") {
			h.emit("state %s", observe(s.db, s.c.Pool))
			s.images("stable")
			s.checkpoint(false)
		}
		return
	}
	h.emit("cend %s n=%d", errStr(err), cr.CompactedSegments)
	s.images("stable")
	if cr.CompactedSegments > 0 {
		h.stat("compact.nonempty")
	}
	s.checkpoint(false)
}

func (h *harness) runOpsStream(stream string, seed uint64, cases, nops int, corpus, replay string) {
	r := &rng{s: seed*0x9e3779b97f4a7c15 + 12345}
	if replay != "" {
		for _, c := range readCases(replay) {
			h.runCase(c, stream, r)
		}
		return
	}
	if corpus != "" {
		files, _ := filepath.Glob(filepath.Join(corpus, "*.case"))
		sort.Strings(files)
		for _, f := range files {
			for _, c := range readCases(f) {
				h.stat("corpus.case")
				h.runCase(c, stream, r)
			}
		}
	}
	for i := 0; i < cases; i++ {
		c := h.genCase(r, fmt.Sprintf("%s-%d-%d", stream, seed, i), stream, nops)
		if h.dumpDir != "" {
			if f, err := os.Create(filepath.Join(h.dumpDir, c.Name+".case")); err == nil {
				bw := bufio.NewWriter(f)
				c.write(bw)
				bw.Flush()
				f.Close()
			}
		}
		h.runCase(c, stream, r)
	}
}

var _ fs.FileSystem = (*simfs.FS)(nil)
