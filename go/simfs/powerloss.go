package simfs

// Power-loss images: see the package comment for the model.

// Pending describes, for one inode at one instant, the data operations issued
// since its last Sync (journal indices).
type Pending struct {
	Ino  int
	Name string
	Ops  []int // indices into the journal, in order
}

// PLChoice selects, for one inode, how much of its pending list survives:
// the first Keep operations fully, and (when Cut >= 0 and operation Keep is a
// write) that write cut at file offset Cut.
type PLChoice struct {
	Keep int
	Cut  int64
}

// PendingAt returns, for the instant after journal[:n], the pending list of every
// inode that has one, sorted by inode id.
func PendingAt(journal []Entry, n int) []Pending {
	byIno := map[int]*Pending{}
	var order []int
	for i := 0; i < n && i < len(journal); i++ {
		e := journal[i]
		switch e.Kind {
		case KWrite, KTruncate:
			p := byIno[e.Ino]
			if p == nil {
				p = &Pending{Ino: e.Ino, Name: e.Name}
				byIno[e.Ino] = p
				order = append(order, e.Ino)
			}
			p.Ops = append(p.Ops, i)
		case KSync:
			if p := byIno[e.Ino]; p != nil {
				p.Ops = nil
			}
		}
	}
	var out []Pending
	for _, ino := range order {
		if p := byIno[ino]; len(p.Ops) > 0 {
			out = append(out, *p)
		}
	}
	return out
}

// PowerLossImage materialises one admissible image at the instant after
// journal[:n]. The base image is taken to be fully durable. choice maps an inode
// to what survives of its pending list; an inode without an entry keeps nothing
// of it (only its synced content).
func PowerLossImage(base *Image, journal []Entry, n int, choice map[int]PLChoice) *Image {
	im := base.Clone()
	pend := map[int]map[int]int{} // ino -> journal index -> position in pending list
	for _, p := range PendingAt(journal, n) {
		m := map[int]int{}
		for pos, ji := range p.Ops {
			m[ji] = pos
		}
		pend[p.Ino] = m
	}
	for i := 0; i < n && i < len(journal); i++ {
		e := journal[i]
		switch e.Kind {
		case KCreate, KRename, KRemove:
			im.Apply(e, -1)
		case KWrite, KTruncate:
			pos, isPending := pend[e.Ino][i]
			if !isPending {
				im.Apply(e, -1)
				continue
			}
			c, ok := choice[e.Ino]
			if !ok {
				continue
			}
			if pos < c.Keep {
				im.Apply(e, -1)
			} else if pos == c.Keep && c.Cut >= 0 && e.Kind == KWrite {
				im.Apply(e, c.Cut)
			}
		}
	}
	im.gc()
	return im
}

// PLVariants enumerates the per-inode choices for one pending list: every prefix
// length, and for each write every 512-aligned cut (capped at maxCuts cuts per
// write, keeping the first and last ones).
func PLVariants(journal []Entry, p Pending, maxCuts int) []PLChoice {
	var out []PLChoice
	for keep := 0; keep <= len(p.Ops); keep++ {
		out = append(out, PLChoice{Keep: keep, Cut: -1})
		if keep < len(p.Ops) {
			cuts := TearCuts(journal[p.Ops[keep]])
			if maxCuts > 0 && len(cuts) > maxCuts {
				cuts = append(append([]int64(nil), cuts[:maxCuts-1]...), cuts[len(cuts)-1])
			}
			for _, c := range cuts {
				out = append(out, PLChoice{Keep: keep, Cut: c})
			}
		}
	}
	return out
}
