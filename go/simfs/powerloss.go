package simfs

// Power-loss images: see the package comment for the model.

// PLState tracks, incrementally along a journal, the durable image (directory operations
// applied at once, file data only when synced) and the per-inode list of data operations
// issued since that inode's last Sync.
type PLState struct {
	Durable *Image
	Pending map[int][]Entry
	Order   []int // inodes with pending operations, in first-seen order
}

// NewPLState starts from a fully durable base image.
func NewPLState(base *Image) *PLState {
	return &PLState{Durable: base.Clone(), Pending: map[int][]Entry{}}
}

// Advance feeds one journal entry.
func (p *PLState) Advance(e Entry) {
	switch e.Kind {
	case KCreate, KRename, KRemove:
		p.Durable.Apply(e, -1)
	case KWrite, KTruncate:
		if _, ok := p.Pending[e.Ino]; !ok {
			p.Order = append(p.Order, e.Ino)
		}
		p.Pending[e.Ino] = append(p.Pending[e.Ino], e)
	case KSync:
		for _, pe := range p.Pending[e.Ino] {
			p.Durable.Apply(pe, -1)
		}
		if _, ok := p.Pending[e.Ino]; ok {
			delete(p.Pending, e.Ino)
			for i, ino := range p.Order {
				if ino == e.Ino {
					p.Order = append(p.Order[:i:i], p.Order[i+1:]...)
					break
				}
			}
		}
	}
}

// PLChoice selects, for one inode, how much of its pending list survives: the first Keep
// operations fully and, when Cut >= 0 and operation Keep is a write, that write cut at
// file offset Cut.
type PLChoice struct {
	Keep int
	Cut  int64
}

// Inodes returns the inodes that have pending operations and still have a directory entry.
func (p *PLState) Inodes() []int {
	live := map[int]bool{}
	for _, id := range p.Durable.Dir {
		live[id] = true
	}
	var out []int
	for _, ino := range p.Order {
		if live[ino] && len(p.Pending[ino]) > 0 {
			out = append(out, ino)
		}
	}
	return out
}

// Variants enumerates the choices for one inode: every prefix length and, for each write,
// 512-aligned cuts (at most maxCuts per write: the first ones and the last one).
func (p *PLState) Variants(ino int, maxCuts int) []PLChoice {
	ops := p.Pending[ino]
	var out []PLChoice
	for keep := 0; keep <= len(ops); keep++ {
		out = append(out, PLChoice{Keep: keep, Cut: -1})
		if keep < len(ops) {
			cuts := TearCuts(ops[keep])
			if maxCuts > 0 && len(cuts) > maxCuts {
				cuts = append(append([]int64(nil), cuts[:maxCuts-1]...), cuts[len(cuts)-1])
			}
			for _, c := range cuts {
				out = append(out, PLChoice{Keep: keep, Cut: c})
			}
		}
	}
	return out
}

// Image materialises one admissible image; an inode without a choice keeps nothing
// of its pending list.
func (p *PLState) Image(choice map[int]PLChoice) *Image {
	im := p.Durable.Clone()
	for ino, c := range choice {
		ops := p.Pending[ino]
		if _, ok := im.Files[ino]; !ok {
			continue
		}
		for i := 0; i < c.Keep && i < len(ops); i++ {
			im.Apply(ops[i], -1)
		}
		if c.Cut >= 0 && c.Keep < len(ops) && ops[c.Keep].Kind == KWrite {
			im.Apply(ops[c.Keep], c.Cut)
		}
	}
	im.gc()
	return im
}

// PowerLossImage is the non-incremental form: the image at the instant after journal[:n].
func PowerLossImage(base *Image, journal []Entry, n int, choice map[int]PLChoice) *Image {
	p := NewPLState(base)
	for i := 0; i < n && i < len(journal); i++ {
		p.Advance(journal[i])
	}
	return p.Image(choice)
}
