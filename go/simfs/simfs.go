// Package simfs is an in-memory fs.FileSystem that journals every state-changing
// call, so that process-crash images (C03/C04/C05) and power-loss images (C06/C09)
// of any instant of a run can be materialised afterwards and reopened by the real
// pogreb code.
//
// Model (exactly the two failure models given by the properties):
//   - directory operations (create, rename, remove) are atomic, ordered and durable;
//   - process crash: every completed call is applied; the call in flight is not
//     applied or, for a data write, applied up to a 512-byte aligned file offset;
//   - power loss: file data and length are volatile until Sync on that file; each
//     file keeps its content as of its last Sync plus an in-order prefix of the
//     writes/truncations issued since (last write cut at a 512-aligned offset).
package simfs

import (
	"errors"
	"fmt"
	"io"
	"os"
	"path/filepath"
	"sort"
	"sync"
	"syscall"
	"time"

	"github.com/akrylysov/pogreb/fs"
)

// Kind of a journal entry.
type Kind int

const (
	KCreate   Kind = iota // Name, Ino: a new directory entry for a new empty inode
	KWrite                // Ino, Off, Data
	KTruncate             // Ino, Size
	KSync                 // Ino
	KRename               // Name -> Name2
	KRemove               // Name
	KMark                 // Note: harness marker (operation boundaries); no effect
	KOpen                 // Ino, Name: handle opened (no state change; for handle accounting)
	KClose                // Ino, Name: handle closed (no state change)
	KLock                 // Name: lock acquired (the create, if any, is a separate KCreate)
	KUnlock               // Name: lock released (the remove is a separate KRemove)
)

func (k Kind) String() string {
	return [...]string{"create", "write", "truncate", "sync", "rename", "remove", "mark", "open", "close", "lock", "unlock"}[k]
}

// Entry is one journaled call.
type Entry struct {
	Kind  Kind
	Name  string
	Name2 string
	Ino   int
	Off   int64
	Size  int64
	Data  []byte
	Note  string
}

// StateChanging reports whether the entry changes the file-system image.
func (e Entry) StateChanging() bool {
	switch e.Kind {
	case KCreate, KWrite, KTruncate, KSync, KRename, KRemove:
		return true
	}
	return false
}

type inode struct {
	id   int
	data []byte
}

// Image is a plain file-system state: directory plus file contents.
type Image struct {
	Dir   map[string]int // name -> inode id
	Files map[int][]byte // inode id -> content
	NextI int
}

// Clone deep-copies the image.
func (im *Image) Clone() *Image {
	c := &Image{Dir: map[string]int{}, Files: map[int][]byte{}, NextI: im.NextI}
	for k, v := range im.Dir {
		c.Dir[k] = v
	}
	for k, v := range im.Files {
		c.Files[k] = append([]byte(nil), v...)
	}
	return c
}

// NewImage returns an empty image.
func NewImage() *Image {
	return &Image{Dir: map[string]int{}, Files: map[int][]byte{}, NextI: 1}
}

// Names returns the sorted directory listing.
func (im *Image) Names() []string {
	var out []string
	for n := range im.Dir {
		out = append(out, n)
	}
	sort.Strings(out)
	return out
}

// File returns the content of a named file.
func (im *Image) File(name string) ([]byte, bool) {
	id, ok := im.Dir[name]
	if !ok {
		return nil, false
	}
	return im.Files[id], true
}

// gc drops inodes that no directory entry refers to.
func (im *Image) gc() {
	live := map[int]bool{}
	for _, id := range im.Dir {
		live[id] = true
	}
	for id := range im.Files {
		if !live[id] {
			delete(im.Files, id)
		}
	}
}

func applyData(buf []byte, e Entry, cut int64) []byte {
	switch e.Kind {
	case KWrite:
		end := e.Off + int64(len(e.Data))
		if cut >= 0 && cut < end {
			end = cut
		}
		if end <= e.Off {
			return buf
		}
		if int64(len(buf)) < end {
			buf = append(buf, make([]byte, end-int64(len(buf)))...)
		}
		copy(buf[e.Off:end], e.Data[:end-e.Off])
		return buf
	case KTruncate:
		if int64(len(buf)) > e.Size {
			return buf[:e.Size]
		}
		return append(buf, make([]byte, e.Size-int64(len(buf)))...)
	}
	return buf
}

// Apply applies one entry to the image. cut >= 0 cuts a write at that file offset.
func (im *Image) Apply(e Entry, cut int64) {
	switch e.Kind {
	case KCreate:
		im.Dir[e.Name] = e.Ino
		im.Files[e.Ino] = nil
		if e.Ino >= im.NextI {
			im.NextI = e.Ino + 1
		}
	case KWrite, KTruncate:
		if _, ok := im.Files[e.Ino]; ok {
			im.Files[e.Ino] = applyData(im.Files[e.Ino], e, cut)
		}
	case KRename:
		if id, ok := im.Dir[e.Name]; ok {
			delete(im.Dir, e.Name)
			im.Dir[e.Name2] = id
		}
	case KRemove:
		delete(im.Dir, e.Name)
	}
}

// TearCuts lists the 512-aligned file offsets strictly inside a write.
func TearCuts(e Entry) []int64 {
	if e.Kind != KWrite {
		return nil
	}
	var cuts []int64
	end := e.Off + int64(len(e.Data))
	first := (e.Off/512 + 1) * 512
	for c := first; c < end; c += 512 {
		cuts = append(cuts, c)
	}
	return cuts
}

// CrashImage returns base + journal[:n] (+ journal[n] cut at `cut` when cut >= 0).
func CrashImage(base *Image, journal []Entry, n int, cut int64) *Image {
	im := base.Clone()
	for i := 0; i < n && i < len(journal); i++ {
		im.Apply(journal[i], -1)
	}
	if cut >= 0 && n < len(journal) {
		im.Apply(journal[n], cut)
	}
	im.gc()
	return im
}

// FS is the journaling file system. Names are full slash paths ("db/lock").
type FS struct {
	mu      sync.Mutex
	dir     map[string]*inode
	nextIno int
	journal []Entry
	locks   map[string]bool
	handles map[int]int // inode -> open handle count
	// FailAfter, when >= 0, makes every state-changing call after that many
	// state-changing entries fail with ErrInjected (not used for crash images).
	FailAfter int
	stateOps  int
	failOnce  bool
	gen       int // bumped by Kill: handles and locks of the dead process become invalid
}

// Kill simulates the death of the process using this file system: every open handle
// becomes invalid and every lock is dropped; the files stay as they are (completed calls
// are applied, nothing else is). The journal continues.
func (s *FS) Kill() {
	s.mu.Lock()
	defer s.mu.Unlock()
	s.gen++
	s.locks = map[string]bool{}
	s.handles = map[int]int{}
	s.journal = append(s.journal, Entry{Kind: KMark, Note: "kill"})
}

// ResetFailBudget makes the next n state-changing calls succeed and every later one fail
// (n < 0: never fail).
func (s *FS) ResetFailBudget(n int) {
	s.mu.Lock()
	defer s.mu.Unlock()
	if n < 0 {
		s.FailAfter = -1
		return
	}
	s.FailAfter = s.stateOps + n
	s.failOnce = true
}

// ErrInjected is returned by calls failed on purpose.
var ErrInjected = errors.New("simfs: injected failure")

// New returns an empty journaling file system.
func New() *FS {
	return FromImage(NewImage())
}

// FromImage returns a file system whose initial state is a copy of the image; no
// lock is held and no handle is open (a fresh process).
func FromImage(im *Image) *FS {
	s := &FS{dir: map[string]*inode{}, nextIno: im.NextI, locks: map[string]bool{}, handles: map[int]int{}, FailAfter: -1}
	for name, id := range im.Dir {
		s.dir[name] = &inode{id: id, data: append([]byte(nil), im.Files[id]...)}
		if id >= s.nextIno {
			s.nextIno = id + 1
		}
	}
	return s
}

// Snapshot returns the current image (what a process crash right now would leave).
func (s *FS) Snapshot() *Image {
	s.mu.Lock()
	defer s.mu.Unlock()
	im := &Image{Dir: map[string]int{}, Files: map[int][]byte{}, NextI: s.nextIno}
	for name, in := range s.dir {
		im.Dir[name] = in.id
		im.Files[in.id] = append([]byte(nil), in.data...)
	}
	return im
}

// Journal returns a copy of the journal so far.
func (s *FS) Journal() []Entry {
	s.mu.Lock()
	defer s.mu.Unlock()
	return append([]Entry(nil), s.journal...)
}

// JournalLen returns the number of journal entries so far.
func (s *FS) JournalLen() int {
	s.mu.Lock()
	defer s.mu.Unlock()
	return len(s.journal)
}

// Mark appends a marker entry.
func (s *FS) Mark(note string) {
	s.mu.Lock()
	defer s.mu.Unlock()
	s.journal = append(s.journal, Entry{Kind: KMark, Note: note})
}

// OpenHandles returns the number of open handles (all inodes).
func (s *FS) OpenHandles() int {
	s.mu.Lock()
	defer s.mu.Unlock()
	n := 0
	for _, c := range s.handles {
		n += c
	}
	return n
}

func (s *FS) log(e Entry) error {
	// Injected failures never hit Remove: pogreb only logs a failed removal of a recovery backup
	// file, and I/O errors are outside the failure models of the properties.
	if e.StateChanging() && e.Kind != KRemove {
		if s.FailAfter >= 0 && s.stateOps >= s.FailAfter {
			if s.failOnce {
				s.FailAfter = -1 // fail exactly this call; later calls (e.g. cleanup) succeed
			}
			return ErrInjected
		}
		s.stateOps++
	} else if e.Kind == KRemove {
		s.stateOps++
	}
	s.journal = append(s.journal, e)
	return nil
}

func clean(name string) string { return filepath.ToSlash(filepath.Clean(name)) }

// OpenFile implements fs.FileSystem.
func (s *FS) OpenFile(name string, flag int, perm os.FileMode) (fs.File, error) {
	if flag&os.O_APPEND != 0 {
		return nil, errors.New("simfs: append mode is not supported")
	}
	name = clean(name)
	s.mu.Lock()
	defer s.mu.Unlock()
	in := s.dir[name]
	if in == nil {
		if flag&os.O_CREATE == 0 {
			return nil, &os.PathError{Op: "open", Path: name, Err: os.ErrNotExist}
		}
		in = &inode{id: s.nextIno}
		if err := s.log(Entry{Kind: KCreate, Name: name, Ino: in.id}); err != nil {
			return nil, err
		}
		s.nextIno++
		s.dir[name] = in
	} else if flag&os.O_TRUNC != 0 && len(in.data) > 0 {
		if err := s.log(Entry{Kind: KTruncate, Ino: in.id, Name: name, Size: 0}); err != nil {
			return nil, err
		}
		in.data = nil
	}
	s.handles[in.id]++
	_ = s.log(Entry{Kind: KOpen, Ino: in.id, Name: name})
	ro := flag&(os.O_WRONLY|os.O_RDWR) == 0
	return &file{fs: s, in: in, name: name, readOnly: ro, gen: s.gen}, nil
}

// Stat implements fs.FileSystem.
func (s *FS) Stat(name string) (os.FileInfo, error) {
	name = clean(name)
	s.mu.Lock()
	defer s.mu.Unlock()
	in := s.dir[name]
	if in == nil {
		return nil, &os.PathError{Op: "stat", Path: name, Err: os.ErrNotExist}
	}
	return info{name: filepath.Base(name), size: int64(len(in.data))}, nil
}

// Remove implements fs.FileSystem.
func (s *FS) Remove(name string) error {
	name = clean(name)
	s.mu.Lock()
	defer s.mu.Unlock()
	if s.dir[name] == nil {
		return &os.PathError{Op: "remove", Path: name, Err: os.ErrNotExist}
	}
	if err := s.log(Entry{Kind: KRemove, Name: name}); err != nil {
		return err
	}
	delete(s.dir, name)
	return nil
}

// Rename implements fs.FileSystem.
// NameMax is the longest file name (last path element) the file system accepts, as on the usual
// disk file systems.
const NameMax = 255

func (s *FS) Rename(oldpath, newpath string) error {
	oldpath, newpath = clean(oldpath), clean(newpath)
	if len(filepath.Base(newpath)) > NameMax {
		return &os.LinkError{Op: "rename", Old: oldpath, New: newpath, Err: syscall.ENAMETOOLONG}
	}
	s.mu.Lock()
	defer s.mu.Unlock()
	in := s.dir[oldpath]
	if in == nil {
		return &os.LinkError{Op: "rename", Old: oldpath, New: newpath, Err: os.ErrNotExist}
	}
	if err := s.log(Entry{Kind: KRename, Name: oldpath, Name2: newpath}); err != nil {
		return err
	}
	delete(s.dir, oldpath)
	s.dir[newpath] = in
	return nil
}

// ReadDir implements fs.FileSystem (sorted by name, like os.ReadDir).
func (s *FS) ReadDir(dir string) ([]os.DirEntry, error) {
	dir = clean(dir)
	s.mu.Lock()
	defer s.mu.Unlock()
	var out []os.DirEntry
	for name, in := range s.dir {
		if clean(filepath.Dir(name)) == dir {
			out = append(out, info{name: filepath.Base(name), size: int64(len(in.data))})
		}
	}
	sort.Slice(out, func(i, j int) bool { return out[i].Name() < out[j].Name() })
	return out, nil
}

// MkdirAll implements fs.FileSystem (directories are implicit).
func (s *FS) MkdirAll(path string, perm os.FileMode) error { return nil }

type lockFile struct {
	fs   *FS
	name string
	gen  int
}

// CreateLockFile implements fs.FileSystem: a second holder in the same FS object
// gets os.ErrExist; an image reopened in a fresh FS object has no holder.
func (s *FS) CreateLockFile(name string, perm os.FileMode) (fs.LockFile, bool, error) {
	name = clean(name)
	s.mu.Lock()
	defer s.mu.Unlock()
	if s.locks[name] {
		return nil, false, os.ErrExist
	}
	existed := s.dir[name] != nil
	if !existed {
		in := &inode{id: s.nextIno}
		if err := s.log(Entry{Kind: KCreate, Name: name, Ino: in.id}); err != nil {
			return nil, false, err
		}
		s.nextIno++
		s.dir[name] = in
	}
	s.locks[name] = true
	_ = s.log(Entry{Kind: KLock, Name: name})
	return &lockFile{fs: s, name: name, gen: s.gen}, existed, nil
}

func (l *lockFile) Unlock() error {
	s := l.fs
	s.mu.Lock()
	defer s.mu.Unlock()
	if !s.locks[l.name] || l.gen != s.gen {
		return os.ErrClosed
	}
	if s.dir[l.name] != nil {
		if err := s.log(Entry{Kind: KRemove, Name: l.name}); err != nil {
			return err
		}
		delete(s.dir, l.name)
	}
	delete(s.locks, l.name)
	_ = s.log(Entry{Kind: KUnlock, Name: l.name})
	return nil
}

type file struct {
	fs       *FS
	in       *inode
	name     string
	off      int64
	closed   bool
	readOnly bool
	gen      int
}

func (f *file) check() error {
	if f.closed || f.gen != f.fs.gen {
		return os.ErrClosed
	}
	return nil
}

func (f *file) Close() error {
	f.fs.mu.Lock()
	defer f.fs.mu.Unlock()
	if err := f.check(); err != nil {
		return err
	}
	f.closed = true
	f.fs.handles[f.in.id]--
	_ = f.fs.log(Entry{Kind: KClose, Ino: f.in.id, Name: f.name})
	return nil
}

func (f *file) readAt(p []byte, off int64) (int, error) {
	if off >= int64(len(f.in.data)) {
		return 0, io.EOF
	}
	n := copy(p, f.in.data[off:])
	if n < len(p) {
		return n, io.EOF
	}
	return n, nil
}

func (f *file) ReadAt(p []byte, off int64) (int, error) {
	f.fs.mu.Lock()
	defer f.fs.mu.Unlock()
	if err := f.check(); err != nil {
		return 0, err
	}
	return f.readAt(p, off)
}

func (f *file) Read(p []byte) (int, error) {
	f.fs.mu.Lock()
	defer f.fs.mu.Unlock()
	if err := f.check(); err != nil {
		return 0, err
	}
	if len(p) == 0 {
		return 0, nil
	}
	n, err := f.readAt(p, f.off)
	f.off += int64(n)
	if n > 0 {
		return n, nil
	}
	return n, err
}

func (f *file) Seek(offset int64, whence int) (int64, error) {
	f.fs.mu.Lock()
	defer f.fs.mu.Unlock()
	if err := f.check(); err != nil {
		return 0, err
	}
	switch whence {
	case io.SeekStart:
		f.off = offset
	case io.SeekCurrent:
		f.off += offset
	case io.SeekEnd:
		f.off = int64(len(f.in.data)) + offset
	}
	return f.off, nil
}

func (f *file) writeAt(p []byte, off int64) (int, error) {
	if f.readOnly {
		return 0, &os.PathError{Op: "write", Path: f.name, Err: os.ErrPermission}
	}
	e := Entry{Kind: KWrite, Ino: f.in.id, Name: f.name, Off: off, Data: append([]byte(nil), p...)}
	if err := f.fs.log(e); err != nil {
		return 0, err
	}
	f.in.data = applyData(f.in.data, e, -1)
	return len(p), nil
}

func (f *file) WriteAt(p []byte, off int64) (int, error) {
	f.fs.mu.Lock()
	defer f.fs.mu.Unlock()
	if err := f.check(); err != nil {
		return 0, err
	}
	return f.writeAt(p, off)
}

func (f *file) Write(p []byte) (int, error) {
	f.fs.mu.Lock()
	defer f.fs.mu.Unlock()
	if err := f.check(); err != nil {
		return 0, err
	}
	n, err := f.writeAt(p, f.off)
	f.off += int64(n)
	return n, err
}

func (f *file) Stat() (os.FileInfo, error) {
	f.fs.mu.Lock()
	defer f.fs.mu.Unlock()
	if err := f.check(); err != nil {
		return nil, err
	}
	return info{name: filepath.Base(f.name), size: int64(len(f.in.data))}, nil
}

func (f *file) Sync() error {
	f.fs.mu.Lock()
	defer f.fs.mu.Unlock()
	if err := f.check(); err != nil {
		return err
	}
	return f.fs.log(Entry{Kind: KSync, Ino: f.in.id, Name: f.name})
}

func (f *file) Truncate(size int64) error {
	f.fs.mu.Lock()
	defer f.fs.mu.Unlock()
	if err := f.check(); err != nil {
		return err
	}
	if f.readOnly {
		return &os.PathError{Op: "truncate", Path: f.name, Err: os.ErrPermission}
	}
	e := Entry{Kind: KTruncate, Ino: f.in.id, Name: f.name, Size: size}
	if err := f.fs.log(e); err != nil {
		return err
	}
	f.in.data = applyData(f.in.data, e, -1)
	return nil
}

func (f *file) Slice(start int64, end int64) ([]byte, error) {
	f.fs.mu.Lock()
	defer f.fs.mu.Unlock()
	if err := f.check(); err != nil {
		return nil, err
	}
	if end > int64(len(f.in.data)) {
		return nil, io.EOF
	}
	if start < 0 || start > end {
		return nil, fmt.Errorf("simfs: bad slice [%d:%d]", start, end)
	}
	return append([]byte(nil), f.in.data[start:end]...), nil
}

type info struct {
	name string
	size int64
}

func (i info) Name() string               { return i.name }
func (i info) Size() int64                { return i.size }
func (i info) Mode() os.FileMode          { return 0640 }
func (i info) ModTime() time.Time         { return time.Time{} }
func (i info) IsDir() bool                { return false }
func (i info) Sys() interface{}           { return nil }
func (i info) Type() os.FileMode          { return 0 }
func (i info) Info() (os.FileInfo, error) { return i, nil }

var _ fs.FileSystem = (*FS)(nil)
